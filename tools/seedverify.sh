#!/bin/bash
# usage: seedverify.sh <ID> <seed-dir>   -- confirm demo (unpatched PASS / patched FAIL) and full suite in a scratch worktree
id=$1; sd=$2; w=/tmp/vw_$(basename $sd)
git -C /repo worktree remove --force $w 2>/dev/null
git -C /repo worktree add -q --detach $w HEAD && cp /repo/aldy/indelpost/*.so $w/aldy/indelpost/
cd $w
/venv/bin/python $sd/demo.py > $sd/verify_unpatched.log 2>&1; echo "unpatched exit=$?" | tee -a $sd/verify.txt
git apply $sd/patch.diff || { echo "PATCH DOES NOT APPLY" | tee -a $sd/verify.txt; exit 1; }
/venv/bin/python $sd/demo.py > $sd/verify_patched.log 2>&1; echo "patched exit=$?" | tee -a $sd/verify.txt
/venv/bin/python -m pytest -q -p no:cacheprovider --timeout=900 > $sd/verify_suite.log 2>&1
grep -E "passed|failed" $sd/verify_suite.log | tail -1 | tee -a $sd/verify.txt
cd /; git -C /repo worktree remove --force $w
