#!/bin/bash
# usage: mut.sh <file-in-repo> <python-regex-old> <new> <ID> [extra check args]
f=$1; old=$2; new=$3; id=$4; shift 4
cd /repo && git diff --quiet -- aldy || { echo "repo dirty"; exit 9; }
/venv/bin/python - "$f" "$old" "$new" <<'PY'
import sys,re
f,old,new=sys.argv[1:4]
s=open('/repo/'+f).read()
n=s.count(old)
if n!=1: print("MATCHES:",n); sys.exit(5)
open('/repo/'+f,'w').write(s.replace(old,new))
PY
[ $? -eq 0 ] || exit 5
cp -r /verif/evidence /tmp/evidence.bak; cd /verif && bin/check $id "$@" 2>&1 | grep -E "VIOLATION|what:|KNOWN|HARNESS|^\[C|Error|error" | head -12
echo "exit=${PIPESTATUS[0]}"
cd /repo && git checkout -- aldy; rm -rf /verif/evidence; mv /tmp/evidence.bak /verif/evidence
