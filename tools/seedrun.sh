#!/bin/bash
# usage: seedrun.sh <ID> <patch> [tier]  -- apply patch to /repo, run the check, revert
id=$1; patch=$2; tier=${3:-quick}
cd /repo && git diff --quiet -- aldy || { echo "repo dirty"; exit 9; }
cp -r /verif/evidence /tmp/evidence.bak.$$
git -C /repo apply $patch || { echo "apply failed"; exit 8; }
cd /verif && timeout 1500 bin/check $id --tier $tier 2>&1 | grep -E "VIOLATION|what:|KNOWN|HARNESS-ERROR|^\[C|not be reproduced" | cut -c1-400 | head -8
echo "exit=${PIPESTATUS[0]}"
git -C /repo checkout -- . ; rm -rf /verif/evidence; mv /tmp/evidence.bak.$$ /verif/evidence
