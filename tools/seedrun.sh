#!/bin/bash
# usage: seedrun.sh <ID> <patch> [tier]
# Applies the patch in a scratch worktree of /repo HEAD (never in /repo itself), runs the
# check against that worktree with evidence/replays redirected, removes the worktree.
id=$1; patch=$2; tier=${3:-quick}
w=/tmp/sr_${id}_$$
git -C /repo worktree add -q --detach $w HEAD || exit 9
cp /repo/aldy/indelpost/*.so $w/aldy/indelpost/ 2>/dev/null
git -C $w apply $patch || { echo "apply failed"; git -C /repo worktree remove --force $w; exit 8; }
mkdir -p /tmp/sr_out_$$
cd /verif && VERIF_REPO=$w VERIF_EVIDENCE=/tmp/sr_out_$$ VERIF_REPLAYS=/tmp/sr_out_$$/replays \
  timeout 1500 bin/check $id --tier $tier "${@:4}" 2>&1 | grep -E "VIOLATION|what:|HARNESS-ERROR|^\[C|not be reproduced" | cut -c1-400 | head -8
echo "exit=${PIPESTATUS[0]}"
git -C /repo worktree remove --force $w; rm -rf /tmp/sr_out_$$
