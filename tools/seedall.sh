#!/bin/bash
# usage: seedall.sh [ID ...]  -- run every stored seeded change against its property's quick check
# (scratch worktrees, /repo untouched); prints one line per seed: <seed> exit=<code>
cd "$(dirname "$0")/.."
for d in seeded/*/; do
  n=$(basename $d); id=${n%%-*}
  if [ $# -gt 0 ] && ! [[ " $* " == *" $id "* ]]; then continue; fi
  r=$(tools/seedrun.sh $id $(pwd)/$d/patch.diff 2>&1 | grep -E "^exit=" | tail -1)
  echo "$n $r"
done
