#!/bin/bash
# Build the overlay venv used by all checks (offline).
set -e
D=$(cd "$(dirname "$0")/.." && pwd)
V="${VERIF_VENV:-$D/.venv}"
if [ -x "$V/bin/python" ] && "$V/bin/python" -c 'import z3, crosshair, cvc5, aldy' 2>/dev/null; then
  exit 0
fi
rm -rf "$V"
/venv/bin/python -m venv "$V"
SP=$("$V/bin/python" -c 'import site; print(site.getsitepackages()[0])')
printf "import site; site.addsitedir('/venv/lib/python3.12/site-packages')\n/repo\n" > "$SP/aldy_overlay.pth"
PIP_NO_INDEX=1 "$V/bin/pip" install -q --no-index --find-links /opt/veriftools/wheels crosshair-tool z3-solver cvc5 >/dev/null 2>&1 || \
PIP_NO_INDEX=1 "$V/bin/pip" install --no-index --find-links /opt/veriftools/wheels crosshair-tool z3-solver cvc5
"$V/bin/python" -c 'import z3, crosshair, cvc5, aldy; print("venv ok", z3.get_version_string(), aldy.__file__)'
