#!/usr/bin/env python3
"""Regenerates MANIFEST.json from the table below (kept in one place)."""
import json, os
D = os.path.dirname(os.path.dirname(os.path.abspath(__file__)))
ALL = [f"C{i:02d}" for i in range(1, 20)]
CHECKS = json.load(open(os.path.join(D, "bin", "manifest_checks.json")))
NA = json.load(open(os.path.join(D, "bin", "manifest_na.json")))
m = {
    "version": 1,
    "setup_cmd": "bin/setup.sh",
    "hooks": {
        "guard": "ALDY_VERIF",
        "enable": "none needed: all substitutions are module-attribute rebinds done by the harness at run time (aldy.lpinterface.model, builtins shadowed per module); no source hooks exist",
        "baseline_off_cmd": "cd /repo && /venv/bin/python -m pytest -ra -q -p no:cacheprovider --timeout=900 --continue-on-collection-errors",
        "source_commits": [],
        "add_only": True,
    },
    "engines": [
        {"name": "symx", "path": "lib/symx.py", "serves_properties": [c["property_id"] for c in CHECKS if c.get("engine") == "symx"],
         "kind_free_text": "own path-forking symbolic executor (z3 terms as numbers, re-execution per path) + z3-capturing ILP backend subclassing aldy.lpinterface.Gurobi"},
        {"name": "crosshair", "path": ".venv (crosshair-tool 0.0.110)", "serves_properties": [c["property_id"] for c in CHECKS if c.get("engine") == "crosshair"],
         "kind_free_text": "symbolic execution of Python with z3 per path"},
    ],
    "checks": [],
    "not_applicable": NA,
    "notes": "bin/check <ID> --tier quick|thorough ; exit 0 held, 1 violation (VIOLATION lines), 3 harness error/inconclusive-only. Replays: bin/check <ID> --replay <path>.",
}
for c in CHECKS:
    pid = c["property_id"]
    m["checks"].append({
        "property_id": pid,
        "quick_cmd": f"bin/check {pid} --tier quick",
        "thorough_cmd": f"bin/check {pid} --tier thorough",
        "evidence_file": f"evidence/{pid}.json",
        "replay_cmd_template": f"bin/check {pid} --replay {{path}}",
        "engine": c.get("engine", "symx"),
        "level_claimed": {"category": c["category"], "text": c["text"], "design_ref": c.get("design_ref", f"DESIGN.md §3 {pid}")},
        "level_note": c["note"],
        "technique": c["technique"],
    })
claimed = {c["property_id"] for c in CHECKS} | {n["property_id"] for n in NA}
assert claimed == set(ALL), sorted(set(ALL) ^ claimed)
json.dump(m, open(os.path.join(D, "MANIFEST.json"), "w"), indent=1)
print("MANIFEST.json written:", len(CHECKS), "checks,", len(NA), "not applicable")
