#!/bin/bash
# Re-run every registered quick check on the current tree (rewrites evidence/*.json).
cd "$(dirname "$0")/.."
rc=0
for id in $(python3 -c "import json;print(' '.join(c['property_id'] for c in json.load(open('MANIFEST.json'))['checks']))"); do
  bin/check $id --tier quick | tail -1 || rc=1
done
exit $rc
