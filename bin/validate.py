import json,jsonschema,sys,glob
jsonschema.validate(json.load(open('/verif/MANIFEST.json')), json.load(open('/root/.vp/MANIFEST.schema.json'))); print('manifest valid')
for f in sorted(glob.glob('/verif/evidence/*.json')):
    jsonschema.validate(json.load(open(f)), json.load(open('/root/.vp/EVIDENCE.schema.json'))); print(f,'valid')
