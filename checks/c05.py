"""
C05 -- the ILP layer returns true optima and exact linearisations.

Sub-checks (each a configuration, run in parallel):
  prod-k / abssum-k : the real inherited Gurobi.prod / Gurobi.abssum executed on the
                      capturing backend; exactness proved by z3 for all values.
  enum-n-gap        : the real generator Gurobi.solutions() executed on a backend whose
                      solve() is a nondeterministic stub over an *uninterpreted* model
                      family (feasibility F and objective O >= 0 are uninterpreted
                      functions of n binaries); per path z3 proves the enumeration
                      contract.
  readback          : the real CBC.getValue / CBC.is_binary on stub variables with
                      symbolic solution values / bounds.
  names             : escape_name uniqueness over aldy's variable-name grammar (z3 strings).
  tee-<suite>       : every model the repo's own stage tests build is solved by real CBC
                      and mirrored (same calls, same order) into the z3 backend; z3 then
                      decides optimality / feasibility / gap / completeness of what CBC
                      returned for that model instance.
"""

import io
import contextlib
import time
import itertools
import builtins
import z3

import symx
from symx import S, SB, Engine, L
import vcommon
from vcommon import new_result, ob

PROPERTY = "C05"
LEVEL = "model_checking"
FUNCTIONS = [
    "aldy.lpinterface.Gurobi.prod", "aldy.lpinterface.Gurobi.abssum",
    "aldy.lpinterface.Gurobi.solutions", "aldy.lpinterface.CBC.getValue",
    "aldy.lpinterface.CBC.is_binary", "aldy.lpinterface.escape_name",
    "aldy.lpinterface.CBC.{addVar,addConstr,setObjective,quicksum,solve} (tee)",
]
STUBS = [
    "solver primitives addVar/addConstr/quicksum/setObjective/varName/variables/"
    "is_binary/getValue/solve replaced by the z3-capturing backend (as CBC does)",
    "enum: solve() = nondeterministic stub returning an optimum of (F ∧ cuts) for "
    "uninterpreted F, O>=0, with a reported objective within 1e-6 of the true one "
    "(floating-point error of a real solver); raises NoSolutionsError iff F ∧ cuts is empty",
    "readback: ortools variable objects replaced by stubs with symbolic "
    "solution_value/lb/ub/integer; int()/isinstance() shadowed in aldy.lpinterface",
]
OUTSIDE = [
    "CBC / OR-Tools internals (only their answers are checked, per instance)",
    "Gurobi-specific primitives (gurobipy not installed)",
    "models with more than 3 binaries in the uninterpreted-family proof (n=4 does not fit)",
]
ASSUMPTIONS = [
    "objectives are non-negative (aldy's are sums of absolute values and penalties)",
    "z3 4.x/5.x linear real/integer arithmetic is sound",
]


def BOUNDS(tier):
    return [
        "prod: 1..4 binary factors; abssum: 1..4 free reals, coefficients 1, "
        "cn_pce_penalty, and symbolic non-negative",
        "enum: n=2 binaries" + (" and n=3 (gap 0 complete; gap 0.1 for first optima with "
                                "<= 1 set bit)" if tier == "thorough" else "")
        + ", gap in {0, 0.1, 0.5} and symbolic gap in [0,1] for n=2, limit in {None,1,2}",
        "teegen: models aldy builds for planted/perturbed samples of GA, GB, GC (major, "
        "minor, structure; gap 0 and 0.3)",
        "tee: models built by aldy/tests/test_{cn,major,minor}_synthetic"
        + (" and test_{cn,major,minor}_real" if tier == "thorough" else "")
        + " (a corpus of instances; the verdict per instance is over all assignments)",
    ]


DELTA = 1e-6
DELTA_Z = z3.Q(1, 1000000)


def configs(tier):
    c = []
    for k in (1, 2, 3, 4):
        c.append({"kind": "prod", "k": k})
        c.append({"kind": "abssum", "k": k})
    for gap in ("0", "0.1", "0.5", "sym"):
        c.append({"kind": "enum", "n": 2, "gap": gap, "limit": None})
    c.append({"kind": "enum", "n": 2, "gap": "0.5", "limit": 1})
    c.append({"kind": "enum", "n": 2, "gap": "0.5", "limit": 2})
    c.append({"kind": "enum-status", "n": 2})
    c.append({"kind": "readback"})
    for suite in ("test_cn_synthetic", "test_major_synthetic", "test_minor_synthetic"):
        c.append({"kind": "tee", "suite": suite})
    for g in ("GA", "GB", "GC"):
        c.append({"kind": "teegen", "gene": g, "pairs": 30 if tier == "quick" else 200})
    if tier == "thorough":
        # n = 3: the path space grows with the number of within-gap yields; gap 0 is
        # explored completely (partitioned by the first optimum), gap 0.1 only for first
        # optima with <= 1 set bit (the other partitions did not finish in 25 min)
        for gap, firsts in (("0", range(8)), ("0.1", (0, 1, 2, 4))):
            for first in firsts:
                c.append({"kind": "enum", "n": 3, "gap": gap, "limit": None,
                          "first": first})
        # CYP2D6-sized models: one configuration per test function, bounded time; what
        # z3 does not certify within the budget is counted as unknown, not claimed
        import importlib
        import inspect
        for suite in ("test_cn_real", "test_major_real", "test_minor_real"):
            mod = importlib.import_module("aldy.tests." + suite)
            for name, fn in sorted(inspect.getmembers(mod, inspect.isfunction)):
                if name.startswith("test_"):
                    c.append({"kind": "tee", "suite": suite, "test": name,
                              "budget": 600, "timeout_ms": 30000})
    return c


def run_config(cfg):
    return globals()["run_" + cfg["kind"].replace("-", "_")](cfg)


# ------------------------------------------------------------------ helpers


def run_prod(cfg):
    res = new_result(cfg)
    k = cfg["k"]
    eng = Engine(name="prod")
    Z = symx.make_z3model_class()
    m = Z("prod")
    terms = [m.addVar(vtype="B", name=f"t{i}") for i in range(k)]
    r = m.addVar(vtype="B", name="res")
    out = m.prod(r, terms)  # the real inherited helper
    cons = m.z3_constraints()
    t0 = time.time()
    st, mdl = eng.prove(cons, r.zv == z3.And([t.zv for t in terms]), "prod-exact")
    ob(res, f"prod{k}: constraints => res == AND(factors) for all 0/1 values", st,
       time.time() - t0)
    if st == "sat":
        vals = {t.name: bool(symx.model_value(mdl, t.zv)) for t in terms + [r]}
        _prod_violation(res, k, vals)
    # every AND-consistent point is feasible (no over-constraint)
    t0 = time.time()
    st2, mdl = eng.prove([r.zv == z3.And([t.zv for t in terms])], z3.And(cons),
                         "prod-complete")
    ob(res, f"prod{k}: res == AND(factors) => all constraints hold", st2, time.time() - t0)
    if st2 == "sat":
        vals = {t.name: bool(symx.model_value(mdl, t.zv)) for t in terms + [r]}
        _prod_violation(res, k, vals, over=True)
    ob(res, f"prod{k}: returns res", "holds" if out is r else "sat")
    # vacuity twin: constraints are satisfiable
    st3, _ = eng.satisfiable(cons)
    ob(res, f"prod{k}: reachability twin (constraints satisfiable)",
       "confirmed" if st3 == "sat" else "unknown")
    res["stats"] = dict(eng.stats)
    res["samples"].append({"prod_constraints": [repr(c) for c in m.constrs]})
    return res


def _prod_violation(res, k, vals, over=False):
    ok, msg = replay({"kind": "prod", "k": k, "vals": vals, "over": over})
    if ok:
        res["violations"].append({
            "what": f"prod helper with {k} factors not exact: {msg}",
            "key": f"prod{k}", "replay": {"kind": "prod", "k": k, "vals": vals,
                                          "over": over}})
    else:
        res["inconclusive"].append(f"prod{k} counterexample did not replay: {msg}")
    res["stats"]["replays"] = res["stats"].get("replays", 0) + 1


def _cbc():
    import aldy.lpinterface as lpi

    return lpi.CBC("replay")


def replay_prod(o):
    """Real CBC: fix the factors (and res) to the counterexample and ask feasibility."""
    k, vals = o["k"], o["vals"]
    import aldy.lpinterface as lpi

    m = _cbc()
    terms = [m.addVar(vtype="B", name=f"t{i}") for i in range(k)]
    r = m.addVar(vtype="B", name="res")
    m.prod(r, terms)
    for t in terms + [r]:
        v = int(vals[m.varName(t)])
        m.addConstr(t <= v)
        m.addConstr(t >= v)
    m.setObjective(r)
    try:
        m.solve()
        feasible = True
    except lpi.NoSolutionsError:
        feasible = False
    want = all(vals[f"t{i}"] for i in range(k))
    if o.get("over"):
        # AND-consistent point must be feasible
        return (not feasible and vals["res"] == want,
                f"AND-consistent point {vals} is infeasible in CBC")
    return (feasible and vals["res"] != want,
            f"point {vals} with res != AND is feasible in CBC")


def run_abssum(cfg):
    res = new_result(cfg)
    k = cfg["k"]
    eng = Engine(name="abssum")
    Z = symx.make_z3model_class()
    for mode in ("unit", "pce", "symbolic"):
        def build():
            m = Z("abs")
            vs = [m.addVar(lb=-m.INF, ub=m.INF, name=f"E_{i}") for i in range(k)]
            if mode == "unit":
                coeffs, cz = None, [z3.RealVal(1)] * k
            elif mode == "pce":
                coeffs = {"E_0": 2.0}
                cz = [z3.RealVal(2)] + [z3.RealVal(1)] * (k - 1)
            else:
                cs = [z3.Real(f"c{i}") for i in range(k)]
                coeffs = {f"E_{i}": S(cs[i]) for i in range(k)}
                cz = cs
            total = m.abssum(vs, coeffs=coeffs)  # the real inherited helper
            return m, vs, cz, total

        # (inside the engine: code that branches on a symbolic weight forks the path)
        hyp0 = [z3.Real(f"c{i}") >= 0 for i in range(k)] if mode == "symbolic" else []
        for dec, pc, (m, vs, cz, total) in eng.explore(build, hyp0, max_paths=256):
            cons = m.z3_constraints()
            hyp = []
            spec = z3.Sum([cz[i] * z3.If(vs[i].zv >= 0, vs[i].zv, -vs[i].zv)
                           for i in range(k)])
            t0 = time.time()
            st, mdl = eng.prove(cons + hyp, total.z3() >= spec)
            ob(res, f"abssum{k}/{mode}: constraints => result >= sum c|v|", st,
               time.time() - t0)
            if st == "sat":
                _abs_violation(res, k, mode, mdl, vs, cz)
            # tightness: ABS := |v| satisfies all constraints and gives equality
            absvars = [v for v in m.vars if v.raw.startswith("ABS_")]
            wit = [absvars[i].zv == z3.If(vs[i].zv >= 0, vs[i].zv, -vs[i].zv)
                   for i in range(k)] if len(absvars) == k else [z3.BoolVal(False)]
            t0 = time.time()
            st, mdl = eng.prove(wit + hyp, z3.And(cons + [total.z3() == spec]))
            ob(res, f"abssum{k}/{mode}: witness ABS=|v| is feasible and attains sum c|v|",
               st, time.time() - t0)
            if st == "sat":
                _abs_violation(res, k, mode, mdl, vs, cz)
    # vacuity twin: with a negative coefficient the lower-bound lemma must fail
    m = Z("abs")
    vs = [m.addVar(lb=-m.INF, ub=m.INF, name=f"E_{i}") for i in range(k)]
    total = m.abssum(vs, coeffs={"E_0": -1.0})
    spec = z3.Sum([z3.If(v.zv >= 0, v.zv, -v.zv) for v in vs])
    st, _ = eng.prove(m.z3_constraints(), total.z3() >= spec)
    ob(res, f"abssum{k}: twin with a negative coefficient is refuted",
       "refuted-as-expected" if st == "sat" else "unknown")
    res["stats"] = dict(eng.stats)
    res["samples"].append({"abssum_constraints": [repr(c) for c in m.constrs]})
    return res


def _abs_violation(res, k, mode, mdl, vs, cz):
    vals = [float(symx.model_value(mdl, v.zv)) for v in vs]
    cs = [float(symx.model_value(mdl, c)) for c in cz]
    rp = {"kind": "abssum", "k": k, "vals": vals, "coeffs": cs}
    ok, msg = replay(rp)
    res["stats"]["replays"] = res["stats"].get("replays", 0) + 1
    if ok:
        res["violations"].append({"what": f"abssum helper ({mode}, {k} terms): {msg}",
                                  "key": f"abssum{k}", "replay": rp})
    else:
        res["inconclusive"].append(f"abssum{k}/{mode} cex did not replay: {msg}")


def replay_abssum(o):
    """Real CBC: fix v_i, minimise the helper's result, compare with sum c|v|."""
    import aldy.lpinterface as lpi

    k, vals, cs = o["k"], o["vals"], o["coeffs"]
    m = _cbc()
    vs = [m.addVar(lb=-m.INF, ub=m.INF, name=f"E_{i}") for i in range(k)]
    total = m.abssum(vs, coeffs={f"E_{i}": cs[i] for i in range(k)})
    for v, x in zip(vs, vals):
        m.addConstr(v <= x)
        m.addConstr(v >= x)
    m.setObjective(total)
    want = sum(c * abs(x) for c, x in zip(cs, vals))
    try:
        st, obj = m.solve()
    except lpi.NoSolutionsError:
        return True, f"infeasible for v={vals}"
    if st != "optimal":
        return True, f"status {st} (unbounded helper?) for v={vals}, coeffs={cs}"
    return abs(obj - want) > 1e-6, f"CBC optimum {obj} vs sum c|v| {want} at v={vals}"


# ------------------------------------------------------------------ enumeration loop


class EnumOracle:
    """
    Nondeterministic solver stub for an uninterpreted model family over n binaries.
    Every solve() returns a *fresh symbolic* assignment that is optimal among the points
    satisfying F and all cuts captured so far (∀ expanded over the 2^n points), or raises
    NoSolutionsError when there is none.
    """

    def __init__(self, eng, n, status="optimal"):
        self.eng, self.n = eng, n
        bs = [z3.BoolSort()] * n
        self.F = z3.Function("F", *bs, z3.BoolSort())
        self.O = z3.Function("O", *bs, z3.RealSort())
        self.points = list(itertools.product([False, True], repeat=n))
        self.calls = 0
        self.cur = None
        self.status = status
        self.returned = []  # list of (xs, obj term)

    def base(self):
        return [self.O(*[z3.BoolVal(b) for b in p]) >= 0 for p in self.points]

    def cuts_at(self, model, pt):
        """cut constraints evaluated at a concrete point -> z3 Bool."""
        out = []
        sub = [(v.zv, z3.BoolVal(b)) for v, b in zip(model.binaries(), pt)]
        for c in model.constrs:
            out.append(z3.substitute(c.z3(), *sub))
        return z3.And(out) if out else z3.BoolVal(True)

    def solve(self, model):
        import aldy.lpinterface as lpi

        self.calls += 1
        if self.calls > 2 ** self.n + 1:
            raise RuntimeError("non-termination: more solves than assignments")
        feas = [z3.And(self.F(*[z3.BoolVal(b) for b in p]), self.cuts_at(model, p))
                for p in self.points]
        if not self.eng.branch(z3.Or(feas)):
            raise lpi.NoSolutionsError("infeasible")
        xs = [z3.Bool(f"x{self.calls}_{i}") for i in range(self.n)]
        sub = [(v.zv, x) for v, x in zip(model.binaries(), xs)]
        cuts_x = z3.And([z3.substitute(c.z3(), *sub) for c in model.constrs] or
                        [z3.BoolVal(True)])
        ox = self.O(*xs)
        contract = [self.F(*xs), cuts_x]
        for p, f in zip(self.points, feas):
            contract.append(z3.Implies(f, ox <= self.O(*[z3.BoolVal(b) for b in p])))
        self.eng.assume(z3.And(contract))
        self.cur = xs
        # the reported objective carries floating-point error: |reported - true| <= DELTA
        rep = z3.Real(f"obj{self.calls}")
        self.eng.assume(z3.And(rep - ox <= DELTA_Z, ox - rep <= DELTA_Z, rep >= 0))
        self.returned.append((xs, ox, rep))
        return self.status, S(rep)

    def value(self, model, var):
        if var.kind != "B":
            return S(z3.Real(f"cont{self.calls}_{var.name}"))
        i = model.binaries().index(var)
        return SB(self.cur[i])


def run_enum(cfg):
    import aldy.lpinterface as lpi

    res = new_result(cfg)
    n = cfg["n"]
    eng = Engine(name="enum", timeout_ms=120000)
    Z = symx.make_z3model_class()
    gap_sym = z3.Real("gap")
    base_extra = []
    if cfg["gap"] == "sym":
        gap = S(gap_sym)
        base_extra = [gap_sym >= 0, gap_sym <= 1]
    else:
        gap = float(cfg["gap"])
    gz = symx.tz(gap)
    eps = symx.q(lpi.SOLVER_PRECISON)
    state = {}

    def run():
        m = Z("enum")
        oracle = EnumOracle(eng, n)
        m.oracle = oracle
        vs = [m.addVar(vtype="B", name=f"b{i}") for i in range(n)]
        m.addVar(lb=-m.INF, ub=m.INF, name="free")  # must never be read out as binary
        m.setObjective(0)
        state["m"], state["o"] = m, oracle
        if "first" in cfg:
            # partition of the path space: the first optimum's bits are fixed
            bits = [(cfg["first"] >> i) & 1 for i in range(n)]
            state["first_bits"] = bits
        ys = []
        for st, obj, names in m.solutions(gap, limit=cfg.get("limit")):
            ys.append((st, obj, names))
            if "first" in cfg and len(ys) == 1:
                want = tuple(sorted(f"b{i}" for i in range(n) if bits[i]))
                if tuple(names) != want:
                    raise symx.PathAbort()
        return ys

    o0 = EnumOracle(eng, n)
    base = o0.base() + base_extra
    F, O = o0.F, o0.O

    def pt(p):
        return [z3.BoolVal(b) for b in p]

    samples = []
    for dec, pc, ys in eng.explore(run, base, max_paths=2000000):
        oracle = state["o"]
        pts = oracle.points
        name_of = lambda p: tuple(sorted(f"b{i}" for i in range(n) if p[i]))  # noqa
        ysets = [tuple(y[2]) for y in ys]
        objs = [symx.tz(y[1]) for y in ys]
        goals = []
        # no assignment twice, only binaries by name
        goals.append(("distinct", z3.BoolVal(len(set(ysets)) == len(ysets)
                                             and all(set(y) <= {f"b{i}" for i in range(n)}
                                                     for y in ysets))))
        if ys:
            best = objs[0]
            tbest = O(*pt(_p(ysets[0], n)))  # true objective of the first yield
            d = DELTA_Z
            goals.append(("first-is-global-optimum",
                          z3.And([z3.Implies(F(*pt(p)), tbest <= O(*pt(p))) for p in pts])))
            goals.append(("yield-feasible-with-reported-objective",
                          z3.And([z3.And(F(*pt(_p(y, n))), O(*pt(_p(y, n))) - o <= d,
                                         o - O(*pt(_p(y, n))) <= d)
                                  for y, o in zip(ysets, objs)])))
            goals.append(("non-decreasing",
                          z3.And([objs[i] <= objs[i + 1] + 2 * d
                                  for i in range(len(objs) - 1)] or [z3.BoolVal(True)])))
            goals.append(("within-gap",
                          z3.And([O(*pt(_p(y, n))) < (1 + gz) * tbest + eps + 4 * d
                                  for y in ysets])))
            ub = (1 + gz) * tbest
        if cfg.get("limit") is None:
            # completeness at termination
            comp = []
            for p in pts:
                if name_of(p) in ysets:
                    continue
                if ys:
                    dom = [O(*pt(_p(y, n))) <= O(*pt(p))
                           for y in ysets if set(y) <= set(name_of(p))]
                    comp.append(z3.Implies(z3.And(F(*pt(p)), O(*pt(p)) <= ub),
                                           z3.Or(dom) if dom else z3.BoolVal(False)))
                else:
                    comp.append(z3.Not(F(*pt(p))))
            goals.append(("complete-up-to-supersets", z3.And(comp or [z3.BoolVal(True)])))
        else:
            goals.append(("limit-respected", z3.BoolVal(len(ys) <= cfg["limit"])))
        for label, g in goals:
            t0 = time.time()
            st, mdl = eng.prove([], g)
            o = ob(res, f"enum n={n} gap={cfg['gap']} limit={cfg.get('limit')}: {label}",
                   st, time.time() - t0)
            if st == "sat":
                _enum_violation(res, cfg, label, mdl, F, O, pts, gz, ysets)
        if len(samples) < 3:
            samples.append({"path_decisions": len(dec), "yields": [list(y) for y in ysets]})
    # collapse identical labels into counts to keep evidence small
    res["obligations"] = _collapse(res["obligations"])
    res["stats"] = dict(eng.stats)
    res["samples"] = samples
    return res


def _p(names, n):
    return tuple(f"b{i}" in names for i in range(n))


def _collapse(obs):
    agg = {}
    for o in obs:
        k = (o["label"], o["status"])
        a = agg.setdefault(k, {"label": o["label"], "status": o["status"], "secs": 0.0,
                               "count": 0})
        a["secs"] += o["secs"]
        a["count"] += 1
    out = []
    for a in agg.values():
        c = a.pop("count")
        a["paths"] = c
        out.append(a)
    # keep obligation counting honest: one entry per (label,status) with a path count;
    # vcommon counts entries, so re-expand cheaply
    exp = []
    for a in out:
        for _ in range(a["paths"]):
            exp.append({"label": a["label"], "status": a["status"], "secs": 0})
    return exp


def _enum_violation(res, cfg, label, mdl, F, O, pts, gz, ysets):
    n = cfg["n"]
    table = {}
    for p in pts:
        f = bool(symx.model_value(mdl, F(*[z3.BoolVal(b) for b in p])))
        o = float(symx.model_value(mdl, O(*[z3.BoolVal(b) for b in p])))
        table["".join("1" if b else "0" for b in p)] = [f, o]
    gap = float(symx.model_value(mdl, gz))
    noise = []
    for k in range(1, 2 ** n + 3):
        r = z3.Real(f"obj{k}")
        xs = [z3.Bool(f"x{k}_{i}") for i in range(n)]
        try:
            rv = symx.model_value(mdl, r, None)
            xv = [bool(symx.model_value(mdl, x)) for x in xs]
            tv = symx.model_value(mdl, O(*[z3.BoolVal(b) for b in xv]))
            noise.append(float(rv - tv) if rv is not None else 0.0)
        except Exception:  # noqa
            noise.append(0.0)
    rp = {"kind": "enum", "n": n, "gap": gap, "limit": cfg.get("limit"), "table": table,
          "label": label, "noise": noise}
    ok, msg = replay(rp)
    res["stats"]["replays"] = res["stats"].get("replays", 0) + 1
    if ok:
        res["violations"].append({"what": f"solutions() breaks '{label}': {msg}",
                                  "key": f"enum:{label}", "replay": rp})
    else:
        res["inconclusive"].append(f"enum cex for {label} did not replay: {msg}")


class TableModel:
    """Concrete replay backend: exact brute-force solver over a truth table.
    Uses the real Gurobi.solutions() through the same capturing primitives."""


def replay_enum(o):
    """Run the real generator on a concrete model given by its table, with an exact
    brute-force solve(), and evaluate the contract concretely."""
    import aldy.lpinterface as lpi

    n, gap, table, limit = o["n"], o["gap"], o["table"], o.get("limit")
    Z = symx.make_z3model_class()
    m = Z("replay")
    vs = [m.addVar(vtype="B", name=f"b{i}") for i in range(n)]
    m.addVar(lb=-m.INF, ub=m.INF, name="free")
    m.setObjective(0)
    pts = list(itertools.product([False, True], repeat=n))

    noise = o.get("noise") or []

    class Brute:
        cur = None
        k = 0

        def solve(self, model):
            best = None
            for p in pts:
                f, ov = table["".join("1" if b else "0" for b in p)]
                if not f:
                    continue
                env = {v: int(b) for v, b in zip(vs, p)}
                okc = True
                for c in model.constrs:
                    val = c.lhs.value(env)
                    if c.sense == "<=" and not val <= 1e-9:
                        okc = False
                    if c.sense == ">=" and not val >= -1e-9:
                        okc = False
                    if c.sense == "==" and abs(val) > 1e-9:
                        okc = False
                if okc and (best is None or ov < best[1]):
                    best = (p, ov)
            if best is None:
                raise lpi.NoSolutionsError("none")
            self.cur = best[0]
            self.k += 1
            nz = noise[self.k - 1] if self.k - 1 < len(noise) else 0.0
            return "optimal", max(0.0, best[1] + max(-DELTA, min(DELTA, nz)))

        def value(self, model, var):
            if var.kind != "B":
                return 0.25
            return bool(self.cur[vs.index(var)])

    m.oracle = Brute()
    ys = []
    for st, obj, names in m.solutions(gap, limit=limit):
        ys.append((obj, tuple(names)))
        if len(ys) > 2 ** n:
            return True, "does not terminate"
    feas = {tuple(sorted(f"b{i}" for i in range(n) if p[i])):
            table["".join("1" if b else "0" for b in p)][1]
            for p in pts if table["".join("1" if b else "0" for b in p)][0]}
    eps = lpi.SOLVER_PRECISON
    names = [y[1] for y in ys]
    if len(set(names)) != len(names):
        return True, f"assignment yielded twice: {names}"
    if any(not set(y) <= {f'b{i}' for i in range(n)} for y in names):
        return True, f"non-binary variable read out: {names}"
    if feas and not ys:
        return True, f"feasible model {feas} but nothing yielded"
    if ys:
        best = min(feas.values())
        if ys[0][1] not in feas or abs(feas[ys[0][1]] - best) > 1e-12:
            return True, f"first yield {ys[0]} is not the optimum {best}"
        for ov, nm in ys:
            if nm not in feas or abs(feas[nm] - ov) > DELTA * 1.01:
                return True, f"yield {nm} infeasible or wrong objective {ov}"
            if not feas[nm] < (1 + gap) * best + eps + 4 * DELTA:
                return True, f"yield {nm} ({feas[nm]}) outside gap of {best}"
        if any(ys[i][0] > ys[i + 1][0] + 2 * DELTA * 1.01 for i in range(len(ys) - 1)):
            return True, f"objectives decrease: {ys}"
        if limit is None:
            for nm, ov in feas.items():
                if nm in names or ov > (1 + gap) * best:
                    continue
                if not any(set(y) <= set(nm) and feas[y] <= ov + 1e-12 for yo, y in ys):
                    return True, (f"within-gap assignment {nm} ({ov}) neither yielded "
                                  f"nor dominated by a yielded subset; yields={ys}")
        elif len(ys) > limit:
            return True, f"{len(ys)} yields with limit={limit}"
    return False, "contract holds on this table"


def run_enum_status(cfg):
    """Non-'optimal' status: nothing may be yielded."""
    res = new_result(cfg)
    n = cfg["n"]
    eng = Engine(name="enum-status")
    Z = symx.make_z3model_class()
    state = {}

    def run():
        m = Z("enum")
        m.oracle = EnumOracle(eng, n, status="feasible")
        [m.addVar(vtype="B", name=f"b{i}") for i in range(n)]
        m.setObjective(0)
        return list(m.solutions(0.5))

    for dec, pc, ys in eng.explore(run, EnumOracle(eng, n).base()):
        ob(res, "enum: status other than 'optimal' yields nothing",
           "holds" if not ys else "sat")
        if ys:
            res["violations"].append({
                "what": "solutions() yields a solution whose status is not optimal",
                "key": "enum:status", "replay": {"kind": "none"}})
    res["stats"] = dict(eng.stats)
    return res


# ------------------------------------------------------------------ CBC read-back


class _StubVar:
    def __init__(self, val, lb, ub, integer):
        self._v, self._lb, self._ub, self._i = val, lb, ub, integer

    def solution_value(self):
        return self._v

    def lb(self):
        return self._lb

    def ub(self):
        return self._ub

    def integer(self):
        return self._i


def run_readback(cfg):
    import aldy.lpinterface as lpi

    res = new_result(cfg)
    eng = Engine(name="readback")
    x, lb, ub = z3.Real("x"), z3.Real("lb"), z3.Real("ub")
    isint = z3.Bool("isint")
    near = z3.Int("near")
    eps = symx.q(lpi.SOLVER_PRECISON)
    base = [lb <= ub, x >= lb - eps, x <= ub + eps,
            z3.Implies(isint, z3.And(x - near <= eps, near - x <= eps,
                                     z3.ToReal(near) >= lb, z3.ToReal(near) <= ub)),
            # the three ways aldy creates variables (CBC.addVar):
            z3.Or(z3.And(isint, lb == 0, ub == 1),  # BoolVar
                  z3.Not(isint))]  # NumVar(lb, ub)

    def isinst(o, t):
        if t is bool and isinstance(o, SB):
            return True
        return builtins.isinstance(o, t)

    saved = {k: lpi.__dict__.get(k) for k in ("int", "isinstance")}
    lpi.int, lpi.isinstance = symx.sint, isinst
    fake = type("Fake", (), {})()
    fake.getValue = lambda v: lpi.CBC.getValue(fake, v)
    try:
        def run():
            var = _StubVar(S(x), S(lb), S(ub), SB(isint))
            val = lpi.CBC.getValue(fake, var)
            binflag = lpi.CBC.is_binary(fake, var)
            return val, binflag

        for dec, pc, (val, binflag) in eng.explore(run, base):
            t0 = time.time()
            if isinstance(val, SB):
                g = z3.And(isint, val.b == (x > z3.Q(1, 2)))
                kind = "bool"
            else:
                g = z3.And(z3.Not(isint), symx.tz(val) == x)
                kind = "number"
            st, mdl = eng.prove([], g)
            ob(res, f"readback: getValue returns {kind}: BoolVar -> bool(round(v)), "
                    "NumVar -> raw value", st, time.time() - t0)
            st2, mdl2 = eng.prove([], z3.BoolVal(bool(binflag)) == isint)
            ob(res, "readback: is_binary <=> variable was created as BoolVar", st2)
            for s_, m_ in ((st, mdl), (st2, mdl2)):
                if s_ == "sat":
                    rp = {"kind": "readback",
                          "x": float(symx.model_value(m_, x)),
                          "lb": float(symx.model_value(m_, lb)),
                          "ub": float(symx.model_value(m_, ub)),
                          "isint": bool(symx.model_value(m_, isint))}
                    ok, msg = replay(rp)
                    res["stats"]["replays"] = res["stats"].get("replays", 0) + 1
                    if ok:
                        res["violations"].append({
                            "what": f"CBC read-back wrong: {msg}", "key": "readback",
                            "replay": rp})
                    else:
                        res["inconclusive"].append(f"readback cex not replayed: {msg}")
    finally:
        for k, v in saved.items():
            if v is None:
                lpi.__dict__.pop(k, None)
            else:
                lpi.__dict__[k] = v
    merged = dict(eng.stats)
    vcommon.merge_stats(merged, res["stats"])
    res["stats"] = merged
    return res


def replay_readback(o):
    import aldy.lpinterface as lpi

    fake = type("Fake", (), {})()
    fake.getValue = lambda v: lpi.CBC.getValue(fake, v)
    var = _StubVar(o["x"], o["lb"], o["ub"], o["isint"])
    val = lpi.CBC.getValue(fake, var)
    isb = lpi.CBC.is_binary(fake, var)
    if o["isint"]:
        good = isinstance(val, bool) and val == (o["x"] > 0.5) and isb
    else:
        good = (not isinstance(val, bool)) and val == o["x"] and not isb
    return (not good), f"var {o} read back as {val!r}, is_binary={isb}"


# ------------------------------------------------------------------ names


def run_names(cfg):
    """
    escape_name over aldy's variable-name grammar.  The transformation is re-derived
    from the real function by running it on the alphabet (each character's image) and on
    the truncation / uniquifier behaviour; z3's string theory then decides injectivity
    of 'escape + uniquify' for sequences of up to 3 distinct raw names.
    """
    import collections
    import aldy.lpinterface as lpi

    res = new_result(cfg)
    eng = Engine(name="names")
    # 1. learn the per-character image by executing the real function
    alphabet = "ABCDEFGHIJKLMNOPQRSTUVWXYZ0123456789_.#>-:*+ins del"
    img = {c: lpi.escape_name(c) for c in alphabet}
    cut = len(lpi.escape_name("x" * 1000))
    d = collections.defaultdict(int)
    uniq = [lpi.escape_name("v", d) for _ in range(3)]
    ob(res, "names: per-character image / truncation / suffix scheme extracted",
       "holds" if uniq == ["v", "v_2", "v_3"] and cut == 200 else "unknown",
       image={k: v for k, v in img.items() if k != v}, cut=cut)
    # 2. z3: raw names of the grammar  PREFIX_body_copy ; body over catalogue alphabet
    #    (digits, capitals, '.', ':', '#'), copy a digit. Two different raw names either
    #    escape differently or get different suffixes, and a suffixed name never equals
    #    another name's escape.
    s = z3.Solver()
    s.set("timeout", 60000)
    body_re = z3.Plus(z3.Union(z3.Range("0", "9"), z3.Range("A", "Z"),
                               z3.Re("."), z3.Re(":"), z3.Re("#")))
    names = [z3.String(f"n{i}") for i in range(3)]
    copies = [z3.String(f"c{i}") for i in range(3)]

    def esc(t):
        out = t
        for c, r in img.items():
            if c != r and c in ".#>-":
                out = z3.Replace(out, z3.StringVal(c), z3.StringVal(r))
        return out

    # z3.Replace replaces only the first occurrence; restrict bodies to at most one
    # occurrence of each rewritten character (bound of this sub-claim).
    for nme in names:
        s.add(z3.InRe(nme, body_re), z3.Length(nme) <= 5)
        for c in ".#":
            i = z3.IndexOf(nme, z3.StringVal(c), 0)
            s.add(z3.Or(i < 0, z3.IndexOf(nme, z3.StringVal(c), i + 1) < 0))
    for c in copies:
        s.add(z3.InRe(c, z3.Range("0", "9")))
    raw = [z3.Concat(z3.StringVal("A_"), names[i], z3.StringVal("_"), copies[i])
           for i in range(3)]
    e = [esc(r) for r in raw]
    s.add(z3.Distinct(*raw))
    # final names after the uniquifier in call order 0,1,2
    f0 = e[0]
    f1 = z3.If(e[1] == e[0], z3.Concat(e[1], z3.StringVal("_2")), e[1])
    cnt2 = z3.If(e[2] == e[0], 1, 0) + z3.If(e[2] == e[1], 1, 0)
    f2 = z3.If(cnt2 == 0, e[2],
               z3.If(cnt2 == 1, z3.Concat(e[2], z3.StringVal("_2")),
                     z3.Concat(e[2], z3.StringVal("_3"))))
    s.add(z3.Not(z3.Distinct(f0, f1, f2)))
    t0 = time.time()
    r = s.check()
    eng.stats.bump("queries")
    eng.stats.bump(str(r))
    eng.stats.bump("solver_s", time.time() - t0)
    if r == z3.sat:
        mdl = s.model()
        rawv = [mdl.eval(x, model_completion=True).as_string() for x in raw]
        rp = {"kind": "names", "raw": rawv}
        ok, msg = replay(rp)
        res["stats"]["replays"] = 1
        if ok:
            ob(res, "names: allele-copy variable names stay distinct", "sat")
            res["violations"].append({"what": f"escape_name collision: {msg}",
                                      "key": "names", "replay": rp})
        else:
            ob(res, "names: allele-copy variable names stay distinct", "unknown")
            res["inconclusive"].append(f"names cex not replayed: {msg}")
    else:
        ob(res, "names: 3 distinct raw names A_<allele>_<copy> (allele over "
                "[0-9A-Z.:#]{1,5}) get 3 distinct solver names", str(r),
           time.time() - t0)
    merged = dict(eng.stats)
    vcommon.merge_stats(merged, res["stats"])
    res["stats"] = merged
    return res


def replay_names(o):
    import collections
    import aldy.lpinterface as lpi

    d = collections.defaultdict(int)
    out = [lpi.escape_name(r, d) for r in o["raw"]]
    return len(set(out)) != len(out), f"{o['raw']} -> {out}"


# ------------------------------------------------------------------ tee with real CBC


class Pair:
    """(ortools expression, L expression) evaluated in lock-step."""

    __slots__ = ("o", "l")

    def __init__(self, o, l):
        self.o, self.l = o, l

    @staticmethod
    def split(x):
        if isinstance(x, Pair):
            return x.o, x.l
        return x, x

    def __add__(self, x):
        o, l = Pair.split(x)
        return Pair(self.o + o, self.l + l)

    def __radd__(self, x):
        o, l = Pair.split(x)
        return Pair(o + self.o, l + self.l)

    def __sub__(self, x):
        o, l = Pair.split(x)
        return Pair(self.o - o, self.l - l)

    def __rsub__(self, x):
        o, l = Pair.split(x)
        return Pair(o - self.o, l - self.l)

    def __mul__(self, x):
        o, l = Pair.split(x)
        return Pair(self.o * o, self.l * l)

    def __rmul__(self, x):
        o, l = Pair.split(x)
        return Pair(o * self.o, l * self.l)

    def __truediv__(self, x):
        o, l = Pair.split(x)
        return Pair(self.o / o, self.l / l)

    def __neg__(self):
        return Pair(-self.o, -self.l)

    def __le__(self, x):
        o, l = Pair.split(x)
        return Pair(self.o <= o, self.l <= l)

    def __ge__(self, x):
        o, l = Pair.split(x)
        return Pair(self.o >= o, self.l >= l)

    def __eq__(self, x):
        if not isinstance(x, (Pair, int, float)):
            return NotImplemented
        o, l = Pair.split(x)
        return Pair(self.o == o, self.l == l)

    def __hash__(self):
        return id(self)

    def __getattr__(self, k):  # solution_value, integer, lb, ub, name ...
        return getattr(self.o, k)

    def __format__(self, spec):
        return format(self.o, spec)

    def __str__(self):
        return str(self.o)


def make_tee_class(log):
    import aldy.lpinterface as lpi

    Z = symx.make_z3model_class()

    class TeeCBC(lpi.CBC):
        def __init__(self, name):
            lpi.CBC.__init__(self, name)
            self.twin = Z(name)
            self.pairs = []
            self.rec = {"name": name, "yields": [], "twin": self.twin, "gap": None}
            log.append(self.rec)

        def addVar(self, *a, **kw):
            o = lpi.CBC.addVar(self, *a, **kw)
            l = self.twin.addVar(*a, **kw)
            assert o.name() == l.name, (o.name(), l.name)
            p = Pair(o, l)
            self.pairs.append(p)
            return p

        def addConstr(self, *a, **kw):
            c = a[0]
            kw2 = dict(kw)
            r = lpi.CBC.addConstr(self, c.o, **kw)
            self.twin.addConstr(c.l, **kw2)
            return r

        def setObjective(self, objective, method="min"):
            o, l = Pair.split(objective)
            lpi.CBC.setObjective(self, o, method)
            self.objective = objective
            self.twin.setObjective(l, method)

        def quicksum(self, expr):
            xs = list(expr)
            return Pair(self.model.Sum([Pair.split(x)[0] for x in xs]),
                        self.twin.quicksum([Pair.split(x)[1] for x in xs]))

        def variables(self):
            return list(self.pairs)

        def getValue(self, var):
            o, _ = Pair.split(var)
            return lpi.CBC.getValue(self, o)

        def varName(self, var):
            return var.o.name()

        def solutions(self, gap=0, best_obj=None, limit=None, iteration=0, init=None):
            if iteration == 0:
                self.rec["gap"] = gap
                self.rec["limit"] = limit
                self.rec["ncons0"] = len(self.twin.constrs)
            for st, obj, names in lpi.CBC.solutions(self, gap, best_obj, limit,
                                                    iteration, init):
                if iteration == 0 or True:
                    pass
                yield st, obj, names

    # record yields at the outermost level only
    orig = TeeCBC.solutions

    def solutions(self, gap=0, best_obj=None, limit=None, iteration=0, init=None):
        gen = orig(self, gap, best_obj, limit, iteration, init)
        if iteration != 0:
            yield from gen
            return
        done = False
        try:
            for y in gen:
                self.rec["yields"].append((y[0], y[1], tuple(y[2])))
                yield y
            done = True
        finally:
            self.rec["exhausted"] = done

    TeeCBC.solutions = solutions
    return TeeCBC


def check_instance(eng, rec, res, label, timeout_ms=120000):
    """z3 verdicts about what CBC returned for one model instance."""
    import aldy.lpinterface as lpi

    twin = rec["twin"]
    n0 = rec.get("ncons0", len(twin.constrs))
    cons0 = []
    for v in twin.vars:
        cons0 += v.bounds()
    cons0 += [c.z3() for c in twin.constrs[:n0]]
    cuts = [c.z3() for c in twin.constrs[n0:]]
    obj = twin.obj_z3()
    ys = rec["yields"]
    eps = 1e-4
    gap = rec["gap"] or 0
    bins = twin.binaries()
    byname = {v.name: v for v in bins}
    out = []

    def prove_unsat(hyps, what):
        t0 = time.time()
        st, mdl = eng.satisfiable(hyps, timeout_ms=timeout_ms)
        status = {"unsat": "unsat", "sat": "sat", "unknown": "unknown"}[st]
        ob(res, f"{label}: {what}", status, time.time() - t0,
           size=[len(twin.vars), len(twin.constrs)])
        out.append((what, status, mdl))
        return status, mdl

    if not ys:
        if rec.get("exhausted"):
            prove_unsat(cons0, "CBC reports no solution => model infeasible")
        return out
    best = ys[0][1]
    prove_unsat(cons0 + [obj < symx.q(best) - symx.q(eps)],
                "first yield is a global optimum (no assignment scores lower)")
    for i, (st, o, names) in enumerate(ys):
        fix = [(v.zv if v.name in names else z3.Not(v.zv)) for v in bins]
        unknown_names = [nm for nm in names if nm not in byname]
        if unknown_names:
            ob(res, f"{label}: yield {i} names only binaries", "sat")
            out.append(("names", "sat", None))
            continue
        t0 = time.time()
        s1, _ = eng.satisfiable(cons0 + cuts[:i] + fix + [obj <= symx.q(o) + symx.q(eps)],
                                timeout_ms=timeout_ms)
        s2, _ = eng.satisfiable(cons0 + fix + [obj < symx.q(o) - symx.q(eps)],
                                timeout_ms=timeout_ms)
        status = "unsat" if (s1 == "sat" and s2 == "unsat") else (
            "unknown" if "unknown" in (s1, s2) else "sat")
        ob(res, f"{label}: yield {i} is feasible and its objective is the reported one",
           status, time.time() - t0)
        out.append((f"yield{i}", status, None))
        within = o < (1 + gap) * best + lpi.SOLVER_PRECISON
        ob(res, f"{label}: yield {i} within gap", "holds" if within else "sat")
        if not within:
            out.append(("gap", "sat", None))
    objs = [y[1] for y in ys]
    mono = all(objs[i] <= objs[i + 1] + 1e-6 for i in range(len(objs) - 1))
    ob(res, f"{label}: objectives non-decreasing, assignments distinct",
       "holds" if mono and len({y[2] for y in ys}) == len(ys) else "sat")
    if not (mono and len({y[2] for y in ys}) == len(ys)):
        out.append(("order", "sat", None))
    if rec.get("exhausted") and not rec.get("limit"):
        prove_unsat(cons0 + cuts + [obj < symx.q((1 + gap) * best) - symx.q(eps)],
                    "no within-gap assignment survives all exclusion cuts (completeness)")
    return out


def run_tee(cfg):
    import importlib
    import inspect
    import aldy.lpinterface as lpi
    from aldy.gene import Gene
    from aldy.common import script_path

    res = new_result(cfg)
    eng = Engine(name="tee", timeout_ms=cfg.get("timeout_ms", 120000))
    T0 = time.time()
    log = []
    Tee = make_tee_class(log)
    saved = lpi.model
    lpi.model = lambda name, solver: Tee(name)
    mod = importlib.import_module("aldy.tests." + cfg["suite"])
    toy = Gene(script_path("aldy.tests.resources/toy.yml"))
    real = None
    failures = []
    try:
        for name, fn in sorted(inspect.getmembers(mod, inspect.isfunction)):
            if not name.startswith("test_") or cfg.get("test", name) != name:
                continue
            params = inspect.signature(fn).parameters
            kw = {}
            if "toy_gene" in params:
                kw["toy_gene"] = toy
            if "real_gene" in params:
                if real is None:
                    real = Gene(script_path("aldy.resources.genes/cyp2d6.yml"))
                kw["real_gene"] = real
            if "solver" in params:
                kw["solver"] = "any"
            start = len(log)
            try:
                with contextlib.redirect_stdout(io.StringIO()):
                    fn(**kw)
            except AssertionError as e:  # the repo's own expectation failed
                failures.append(f"{name}: {e}")
            for i, rec in enumerate(log[start:]):
                label = f"{cfg['suite']}.{name}#{i}"
                if time.time() - T0 > cfg.get("budget", 1e9):
                    ob(res, f"{label}: not examined (time budget of the configuration)",
                       "unknown")
                    rec["twin"] = None
                    continue
                out = check_instance(eng, rec, res, label)
                for what, status, mdl in out:
                    if status == "sat":
                        res["violations"].append({
                            "what": f"real CBC answer refuted by z3 on {label}: {what}",
                            "key": f"tee:{what}",
                            "replay": {"kind": "tee", "suite": cfg["suite"],
                                       "test": name, "index": i, "what": what}})
                if len(res["samples"]) < 3 and rec["yields"]:
                    res["samples"].append({
                        "instance": label, "vars": len(rec["twin"].vars),
                        "constraints": len(rec["twin"].constrs),
                        "yields": [[y[1], list(y[2])[:8]] for y in rec["yields"][:3]]})
                rec["twin"] = None
    finally:
        lpi.model = saved
    res["stats"] = dict(eng.stats)
    res["stats"]["instances"] = len(log)
    if failures:
        res["inconclusive"] += [f"repo test failed under tee: {f}" for f in failures]
    return res


def run_teegen(cfg):
    """tee on models aldy builds for planted (and perturbed) samples of a generated gene:
    major and minor stage for pairs of catalogued alleles, structure stage for planted
    structures; every CBC answer is certified by z3 on the mirrored model."""
    import itertools
    import collections
    import aldy.lpinterface as lpi
    import aldy.major as major
    import aldy.minor as minor
    import aldy.cn as cn
    import gengene
    import stagelib
    from aldy.gene import Mutation
    from aldy.profile import Profile
    from aldy.solutions import CNSolution

    res = new_result(cfg)
    eng = Engine(name="teegen", timeout_ms=120000)
    log = []
    Tee = make_tee_class(log)
    saved = lpi.model
    lpi.model = lambda name, solver: Tee(name)
    gene = gengene.load(cfg["gene"], "hg19")
    normal = sorted(a for a, al in gene.alleles.items() if al.cn_config == "1")
    pairs = list(itertools.combinations_with_replacement(normal, 2))[:cfg["pairs"]]
    try:
        for k, (a, b) in enumerate(pairs):
            counts = collections.Counter()
            sites = set()
            for al in (a, b):
                mi = sorted(gene.alleles[al].minors)[-1]
                for m in set(gene.alleles[al].func_muts) | set(
                        gene.alleles[al].minors[mi].neutral_muts):
                    counts[m] += 10 - (k % 3)  # planted, slightly perturbed
                    sites.add(m.pos)
            full = dict(counts)
            for p in sites:
                alt = sum(c for m, c in counts.items() if m.pos == p and m.op[:3] != "ins")
                if 20 - alt > 0:
                    full[Mutation(p, "_")] = 20 - alt
            for gap in (0, 0.3):
                prof = Profile("t", gap=gap)
                cov = stagelib.concrete_coverage(gene, prof, full)
                start = len(log)
                with contextlib.redirect_stdout(io.StringIO()):
                    sols = major.estimate_major(gene, cov, CNSolution(gene, 0, ["1", "1"]),
                                                "any")
                    if sols and gap == 0:
                        minor.estimate_minor(gene, cov, sols[:1], "any")
                for i, rec in enumerate(log[start:]):
                    label = f"teegen/{cfg['gene']}/{a}+{b}/gap={gap}#{i}"
                    for what, status, _ in check_instance(eng, rec, res, label):
                        if status == "sat":
                            res["violations"].append({
                                "what": f"real CBC answer refuted by z3 on {label}: {what}",
                                "key": f"tee:{what}",
                                "replay": {"kind": "teegen", "gene": cfg["gene"],
                                           "pairs": cfg["pairs"]}})
                    rec["twin"] = None
        if gene.do_copy_number:
            for names in (["1", "1"], ["1", "1", "1"]) + tuple(
                    [["1", c] for c in gene.cn_configs if c != "1"]):
                rc = {}
                for r in gene.unique_regions:
                    g0 = sum(gene.cn_configs[c].cn[0].get(r, 0) for c in names)
                    g1 = sum(gene.cn_configs[c].cn[1].get(r, 0) for c in names) \
                        if len(gene.regions) > 1 else 0
                    rc[r] = (g0 + 0.2, float(g1))
                for gap in (0, 0.3):
                    start = len(log)
                    with contextlib.redirect_stdout(io.StringIO()):
                        cn.solve_cn_model(gene, Profile("t", gap=gap), gene.cn_configs, 4,
                                          rc, "any")
                    for i, rec in enumerate(log[start:]):
                        label = f"teegen/{cfg['gene']}/cn={'+'.join(names)}/gap={gap}"
                        for what, status, _ in check_instance(eng, rec, res, label):
                            if status == "sat":
                                res["violations"].append({
                                    "what": f"real CBC answer refuted by z3 on {label}: "
                                            f"{what}", "key": f"tee:{what}",
                                    "replay": {"kind": "teegen", "gene": cfg["gene"],
                                               "pairs": cfg["pairs"]}})
                        rec["twin"] = None
    finally:
        lpi.model = saved
    res["stats"] = dict(eng.stats)
    res["stats"]["instances"] = len(log)
    res["samples"].append({"gene": cfg["gene"], "instances": len(log)})
    return res


def replay_teegen(o):
    res = run_teegen({"kind": "teegen", "gene": o["gene"], "pairs": o["pairs"]})
    return bool(res["violations"]), (res["violations"][0]["what"] if res["violations"]
                                     else "not reproduced")


def replay_tee(o):
    """Re-run the single test under the tee and re-check (the instance is the replay)."""
    res = run_tee({"kind": "tee", "suite": o["suite"], "test": o["test"]})
    bad = [v for v in res["violations"]
           if v["replay"]["test"] == o["test"] and v["replay"]["what"] == o["what"]]
    return bool(bad), (bad[0]["what"] if bad else "not reproduced")


def replay_none(o):
    return True, "directly observed on the real generator"


def replay(o):
    return globals()["replay_" + o["kind"]](o)
