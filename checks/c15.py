"""
C15 -- calls are backed by high-quality reads; low-quality reads are ignored.

  quality   the real Coverage.filtered(Coverage.quality_filter) on observation lists whose
            (mapq, baseq) pairs are symbolic, thresholds symbolic: kept = exactly the
            observations with both qualities >= their threshold (so evidence differing
            only below a threshold is identical after the first filter, which is the
            only thing the stages consume -- checked by `consumes`)
  threshold the real basic_filter / major.filter_fns / minor.default_filter_fn /
            cn._filter_configs on symbolic counts with symbolic threshold and
            min_coverage: a variant survives iff count >= max(min_coverage,
            depth*thr/cn_max) and (non-reference) count >= depth*thr/(cn(pos)+0.5)
  backed    end to end on symbolic *raw* counts through the real filters into the
            captured major / minor models: every allele that gets a selector, every
            novel flag and every variant a feasible minor assignment carries has a
            qualifying filtered count; an allele with an unsupported core variant gets
            no selector
  phase     one extra read with symbolic mapping quality through the real _parse_read: on
            the paths where it fails the quality filter the captured minor model must be
            the model without it (it is not: known finding, replayed with CBC)
  consumes  the stage entry points hand only the quality-filtered coverage to the model
            builders (the object passed on is the result of the filter chain)
"""
import time
import collections
import z3

import symx
import gengene
import stagelib
from symx import S, SB, Engine
from vcommon import new_result, ob
from aldy.gene import Mutation
from aldy.profile import Profile
from aldy.coverage import Coverage
from aldy.solutions import CNSolution, MajorSolution, SolvedAllele

PROPERTY = "C15"
LEVEL = "model_checking"
FUNCTIONS = ["aldy.coverage.Coverage.{filtered,quality_filter,basic_filter}",
             "aldy.major._filter_alleles (filter_fns)", "aldy.major.estimate_major",
             "aldy.minor.estimate_minor (default_filter_fn)", "aldy.cn._filter_configs",
             "aldy.major.solve_major_model", "aldy.minor.solve_minor_model",
             "aldy.profile.Profile.{__init__,update,load} (threshold routes, shared with C18)"]
STUBS = ["threshold/backed: observation lists have symbolic lengths; the real "
         "Coverage.coverage/total/filtered and the real filter functions run on them (the "
         "predicate's symbolic truth value forks the path); the quality filter on such lists "
         "is the identity (decided on symbolic qualities in 'quality'); aldy.coverage.max -> "
         "If-term max",
         "lpinterface.model -> z3-capturing backend"]
OUTSIDE = ["indelpost's own quality handling",
           "cn_max symbolic (division by a symbolic value); it is concrete 20"]
ASSUMPTIONS = ["depth per site concrete (20*cn), counts/thresholds symbolic reals"]
D = 10


def BOUNDS(tier):
    return ["quality: <=4 observations per (site, allele) over 2 sites, mapq/baseq symbolic "
            "integers 0..60, thresholds symbolic 0..60; indel-table entries included",
            "threshold/backed: toy, GA, GB (both builds); threshold in (0,1], "
            "min_coverage in [1,10] symbolic; structures of 2-3 copies",
            ]


# called alleles without a gene copy at some sites (whole-gene deletion, fused allele): the
# copy number at the variant's position differs from the number of called copies
MINOR_PARTIAL = [("toy", ["1", "6"], {"1": 1, "6": 1}), ("GA", ["1", "5"], {"1": 1, "5#1": 1})]


def configs(tier):
    c = [{"kind": "quality", "n": 3}, {"kind": "quality", "n": 4 if tier == "thorough" else 2}]
    for g in ("toy", "GA", "GB"):
        for genome in ("hg19", "hg38"):
            sts = {"toy": [["1", "1"], ["1", "4"], ["1", "6"]], "GA": [["1", "1"], ["1", "5"]],
                   "GB": [["1", "1"]]}[g]
            for st in sts:
                c.append({"kind": "major", "gene": g, "genome": genome, "cn": st})
        c.append({"kind": "cnfilter", "gene": g, "genome": "hg19"})
    mins = [("toy", ["1", "1"], {"1": 1, "3": 1}), ("GA", ["1", "1"], {"3": 1, "4": 1}),
            ("GB", ["1", "1"], {"2": 1, "5": 1})] + MINOR_PARTIAL
    for g, cn, mj in mins:
        for genome in ("hg19", "hg38"):
            c.append({"kind": "minor", "gene": g, "genome": genome, "cn": cn, "major": mj})
    # a profile with one quality threshold at zero (min_mapq = 0, as the shipped pgx
    # profiles have) and observations below the other one
    for g, cn, mj in mins[:2]:
        c.append({"kind": "minor", "gene": g, "genome": "hg19", "cn": cn, "major": mj,
                  "mapq0": True})
    c.append({"kind": "consumes"})
    c.append({"kind": "phase"})
    # the thresholds that decide which observations count reach the Profile object through
    # every configuration route (shared with C18: constructor / update / profile options /
    # explicit parameter beats the option of the profile file)
    c.append({"kind": "thresholdroute"})
    return c


def run_config(cfg):
    return globals()["run_" + cfg["kind"]](cfg)


# ------------------------------------------------------------------ quality filter


def run_quality(cfg):
    res = new_result(cfg)
    n = cfg["n"]
    eng = Engine(name="c15q")
    gene = gengene.load("toy", "hg19")
    pos = sorted(gene.mutations)[0][0]
    mq = [z3.Int(f"mq{i}") for i in range(n)]
    bq = [z3.Int(f"bq{i}") for i in range(n)]
    tq, tm = z3.Int("min_quality"), z3.Int("min_mapq")
    base = [z3.And(x >= 0, x <= 60) for x in mq + bq + [tq, tm]]
    obs = [(S(mq[i]), S(bq[i])) for i in range(n)]
    ins = (pos, "insTT")
    single = z3.Bool("single_allele_site")
    state = {}

    def run():
        prof = Profile("q")
        prof.min_quality, prof.min_mapq = S(tq), S(tm)
        # the site shows two alleles, or every read there shows the same one
        half = 0 if eng.branch(single) else n // 2
        state["half"] = half
        covd = {pos: {"_": obs[:half], "T>A": obs[half:]},
                pos + 1: {"_": [(60, 60)]}}
        if not half:
            del covd[pos]["_"]
        cov = Coverage(gene, prof, None, covd, {ins: (3, 2)}, {})
        f = cov.filtered(Coverage.quality_filter)
        return cov, f

    for dec, pc, (cov, f) in eng.explore(run, base, max_paths=100000):
        kept = []
        for op in ("_", "T>A"):
            kept += [(id(x[0]), id(x[1])) for x in f._coverage.get(pos, {}).get(op, [])]
        goals = [z3.BoolVal(len(set(kept)) == len(kept))]
        for i, o_ in enumerate(obs):
            goals.append(z3.BoolVal((id(o_[0]), id(o_[1])) in kept)
                         == z3.And(bq[i] >= tq, mq[i] >= tm))
        # nothing invented, order kept, original untouched, other sites and the indel
        # table pass through
        same = (len(f._coverage.get(pos + 1, {}).get("_", [])) == 1
                and f._indels == {ins: (3, 2)} and f is not cov
                and len(cov._coverage[pos].get("_", [])) + len(cov._coverage[pos]["T>A"])
                == n)
        t0 = time.time()
        s_, mdl = eng.prove([], z3.And(goals + [z3.BoolVal(same)]))
        ob(res, f"quality n={n}: kept = exactly the observations with baseq >= "
                "min_quality and mapq >= min_mapq; evidence object not modified", s_,
           time.time() - t0)
        if s_ == "sat":
            vals = {"mq": [int(symx.model_value(mdl, x)) for x in mq],
                    "bq": [int(symx.model_value(mdl, x)) for x in bq],
                    "tq": int(symx.model_value(mdl, tq)), "tm": int(symx.model_value(mdl, tm))}
            rp = {"kind": "quality", "n": n, "single": state["half"] == 0, **vals}
            okk, msg = replay(rp)
            res["stats"]["replays"] = res["stats"].get("replays", 0) + 1
            if okk:
                res["violations"].append({"what": msg, "key": "quality", "replay": rp})
            else:
                res["inconclusive"].append(msg)
                ob(res, "UNREPRODUCED counterexample: quality", "inconclusive")
    res["stats"] = {**dict(eng.stats), **res["stats"]}
    res["obligations"] = [{"label": o["label"], "status": o["status"], "secs": 0}
                          for o in res["obligations"]]
    return res


def replay_quality(o):
    gene = gengene.load("toy", "hg19")
    pos = sorted(gene.mutations)[0][0]
    n = o["n"]
    prof = Profile("q", min_quality=o["tq"], min_mapq=o["tm"])
    obs = list(zip(o["mq"], o["bq"]))
    half = 0 if o.get("single") else n // 2
    table = {pos: {"_": obs[:half], "T>A": obs[half:]}}
    if not half:
        del table[pos]["_"]
    cov = Coverage(gene, prof, None, table, None, {})
    f = cov.filtered(Coverage.quality_filter)
    got = collections.Counter(f._coverage.get(pos, {}).get("_", [])
                              + f._coverage.get(pos, {}).get("T>A", []))
    want = collections.Counter((m, q) for m, q in obs if q >= o["tq"] and m >= o["tm"])
    return got != want, (f"observations {obs} with min_quality={o['tq']} min_mapq="
                         f"{o['tm']}: kept {sorted(got.elements())}, expected "
                         f"{sorted(want.elements())}")


# ------------------------------------------------------------------ threshold filters


def sym_raw(gene, cn_list, muts, extra_profile=True):
    """symbolic raw counts for muts; concrete depth 10*cn per site."""
    base, xs, counts, totals = [], {}, {}, {}
    thr, mc = z3.Real("threshold"), z3.Real("min_coverage")
    base += [thr > 0, thr <= 1, mc >= 1, mc <= 10]
    for m in muts:
        totals[m.pos] = D * stagelib.position_cn(gene, cn_list, m.pos)
    bypos = collections.defaultdict(list)
    for m in muts:
        x = z3.Real(f"x_{m.pos}_{m.op}")
        xs[m] = x
        base += [x >= 0, x <= totals[m.pos]]
        counts[m] = S(x)
        if not stagelib.is_ins(m):
            bypos[m.pos].append(x)
    for pos in {m.pos for m in muts}:
        alts = bypos.get(pos, [])
        if alts:
            base.append(z3.Sum(alts) <= totals[pos])
        # an expression, not a fresh variable: the real Coverage.total() then sums to the
        # concrete depth and depth * threshold stays linear
        r = symx.tz(totals[pos]) - (z3.Sum(alts) if alts else 0)
        xs[Mutation(pos, "_")] = r
        counts[Mutation(pos, "_")] = S(r)
    prof = Profile("verif")
    prof.threshold, prof.min_coverage = S(thr), S(mc)
    return base, xs, counts, totals, prof, thr, mc


def qualifies(gene, cn_list, prof, m, xs, totals, thr, mc, cn_max=20):
    """the documented survival condition of a variant (spec)."""
    t = totals[m.pos]
    a = z3.If(mc > t * thr / cn_max, mc, t * thr / cn_max)
    c = xs[m] >= a
    if m.op != "_":
        cn = stagelib.position_cn(gene, cn_list, m.pos)
        c = z3.And(c, xs[m] >= t * thr / symx.q(cn + 0.5))
    return c


def run_major(cfg):
    import aldy.major as major
    import aldy.coverage as cov_mod
    import aldy.common

    res = new_result(cfg)
    gene = gengene.load(cfg["gene"], cfg["genome"])
    cn_list = list(cfg["cn"])
    muts = stagelib.core_variants(gene)
    base, xs, counts, totals, prof, thr, mc = sym_raw(gene, cn_list, muts)
    cn_sol = CNSolution(gene, 0, cn_list)
    eng = Engine(name="c15m", timeout_ms=120000)
    tag = f"major/{cfg['gene']}/{cfg['genome']}/{','.join(cn_list)}"
    cov_mod.max = symx.smax
    state = {}

    # observations below the quality thresholds, present in the raw evidence only
    lowq = {}
    for m_ in list(xs):
        lq = z3.Real(f"lq_{m_.pos}_{m_.op}")
        base += [lq >= 0, lq <= 40]
        lowq[m_.pos, m_.op] = S(lq)
    LOWQ[cfg["gene"], cfg["genome"]] = {k: v.t for k, v in lowq.items()}

    def run():
        aldy.common.json.clear()
        cov = stagelib.SymCoverage(gene, prof, counts, totals, identity_filter=False,
                                   lowq=lowq)
        real = major.solve_major_model

        def spy(gene_, coverage, *a, **kw):
            state["cov"] = coverage
            return real(gene_, coverage, *a, **kw)

        major.solve_major_model = spy
        state.pop("cov", None)
        try:
            with symx.install() as inst:
                try:
                    major.estimate_major(gene, cov, cn_sol, "z3")
                except symx.PathAbort:
                    raise
                except Exception as e:  # noqa  (crash of the real stage)
                    state["crash"] = f"{type(e).__name__}: {e}"
                    return None
                return inst.models[-1] if inst.models else None
        finally:
            major.solve_major_model = real

    try:
        for dec, pc, m in eng.explore(run, base, max_paths=50000):
            covf = state.get("cov")
            if state.pop("crash", None):
                s_, mdl = eng.satisfiable([])
                ob(res, f"{tag}: the stage does not crash", "sat")
                if mdl is not None:
                    cex_counts(res, cfg, "major", mdl, xs, totals, thr, mc,
                               "estimate_major crashes")
                continue
            if covf is None:
                # no model: some configuration lost all candidates; then every allele of
                # that configuration must have a non-qualifying core variant
                cnt = collections.Counter(cn_list)
                g = []
                for c in cnt:
                    per = []
                    for a, al in gene.alleles.items():
                        if al.cn_config == c:
                            per.append(z3.Or([z3.Not(qualifies(gene, cn_list, prof, v, xs,
                                                               totals, thr, mc))
                                              for v in al.func_muts]
                                             or [z3.BoolVal(False)]))
                    g.append(z3.And(per or [z3.BoolVal(True)]))
                s_, _ = eng.prove([], z3.Or(g))
                ob(res, f"{tag}: no model only if a configuration has no allele with "
                        "fully qualifying core variants", s_)
                if s_ == "sat":
                    res["violations"].append({"what": f"{tag}: stage gives up although "
                                              "candidates qualify", "key": "major-none",
                                              "replay": {"kind": "none"}})
                continue
            goals = []
            for v in muts:
                kept = (v.pos, v.op) in covf._sc
                goals.append(z3.BoolVal(kept) == qualifies(gene, cn_list, prof, v, xs,
                                                           totals, thr, mc))
            t0 = time.time()
            s_, mdl = eng.prove([], z3.And(goals))
            ob(res, f"{tag}: threshold: a core variant survives the two-step filter iff "
                    "it qualifies", s_, time.time() - t0)
            if s_ == "sat":
                cex_counts(res, cfg, "major", mdl, xs, totals, thr, mc, "threshold filter "
                           "keeps/drops a variant against the documented thresholds")
            if m is None:
                continue
            sel = {v.raw[2:].rsplit("_", 1)[0] for v in m.vars if v.raw.startswith("A_")}
            nov = [v.raw[2:] for v in m.vars if v.raw.startswith("N_")]
            g = []
            for a in sel:
                for v in gene.alleles[a].func_muts:
                    g.append(qualifies(gene, cn_list, prof, v, xs, totals, thr, mc))
            for v in muts:
                if str(v) in nov:
                    g.append(qualifies(gene, cn_list, prof, v, xs, totals, thr, mc))
            # an allele with an unsupported core variant gets no selector
            for a, al in gene.alleles.items():
                if al.cn_config in cn_list and a not in sel:
                    g.append(z3.Or([z3.Not(qualifies(gene, cn_list, prof, v, xs, totals,
                                                     thr, mc)) for v in al.func_muts]
                                   or [z3.BoolVal(False)]))
            t0 = time.time()
            s_, mdl = eng.prove([], z3.And(g or [z3.BoolVal(True)]))
            ob(res, f"{tag}: backed: every selectable allele's core variants and every "
                    "novel flag qualify; unsupported alleles get no selector", s_,
               time.time() - t0)
            if s_ == "sat":
                cex_counts(res, cfg, "major", mdl, xs, totals, thr, mc, "an allele / novel "
                           "variant without qualifying support can be called")
    finally:
        cov_mod.__dict__.pop("max", None)
    res["stats"] = {**dict(eng.stats), **res["stats"]}
    res["obligations"] = [{"label": o["label"], "status": o["status"], "secs": 0}
                          for o in res["obligations"]]
    return res


def run_minor(cfg):
    import aldy.minor as minor
    import aldy.coverage as cov_mod
    import aldy.common
    import c04

    res = new_result(cfg)
    gene = gengene.load(cfg["gene"], cfg["genome"])
    cn_list = list(cfg["cn"])
    major = dict(cfg["major"])
    muts = c04.considered(gene, major)
    base, xs, counts, totals, prof, thr, mc = sym_raw(gene, cn_list, muts)
    cn_sol = CNSolution(gene, 0, cn_list)
    msol = MajorSolution(0, {SolvedAllele(gene, a): c for a, c in major.items()}, cn_sol, [])
    eng = Engine(name="c15n", timeout_ms=120000)
    tag = f"minor/{cfg['gene']}/{cfg['genome']}"
    cov_mod.max = symx.smax
    minor.max = symx.smax
    state = {}
    lowq = None
    if cfg.get("mapq0"):
        tag += "/min_mapq=0"
        prof.min_mapq = 0
        lowq = {}
        for m_ in list(xs):
            lq = z3.Real(f"lq_{m_.pos}_{m_.op}")
            base += [lq >= 0, lq <= 40]
            lowq[m_.pos, m_.op] = S(lq)
        LOWQ[cfg["gene"], cfg["genome"]] = {k: v.t for k, v in lowq.items()}

    def run():
        aldy.common.json.clear()
        cov = stagelib.SymCoverage(gene, prof, counts, totals, identity_filter=False,
                                   lowq=lowq)
        real = minor.solve_minor_model

        def spy(gene_, coverage, *a, **kw):
            state["cov"] = coverage
            return real(gene_, coverage, *a, **kw)

        minor.solve_minor_model = spy
        try:
            with symx.install() as inst:
                minor.estimate_minor(gene, cov, [msol], "z3")
                return inst.models[-1] if inst.models else None
        finally:
            minor.solve_minor_model = real

    try:
        for dec, pc, m in eng.explore(run, base, max_paths=50000):
            covf = state["cov"]
            goals = []
            for v in muts:
                kept = (v.pos, v.op) in covf._sc
                goals.append(z3.BoolVal(kept) == qualifies(gene, cn_list, prof, v, xs,
                                                           totals, thr, mc))
            s_, mdl = eng.prove([], z3.And(goals))
            ob(res, f"{tag}: threshold: a considered variant survives iff it qualifies", s_)
            if s_ == "sat":
                cex_counts(res, cfg, "minor", mdl, xs, totals, thr, mc, "minor-stage filter "
                           "keeps/drops a variant against the documented thresholds")
            cons = m.z3_constraints()
            g = []
            for v in m.vars:
                if v.raw.startswith("MUL_K_") or v.raw.startswith("MUL_N_"):
                    body = v.raw.split("_", 2)[2]
                    mv = [x for x in muts if body.startswith(f"{x.pos}_{x.op}_")]
                    mv = max(mv, key=lambda x: len(x.op))
                    g.append(z3.Implies(v.zv, qualifies(gene, cn_list, prof, mv, xs, totals,
                                                        thr, mc)))
            t0 = time.time()
            s_, mdl = eng.prove(cons, z3.And(g or [z3.BoolVal(True)]))
            ob(res, f"{tag}: backed: in every feasible assignment each carried variant "
                    "qualifies", s_, time.time() - t0)
            if s_ == "sat":
                cex_counts(res, cfg, "minor", mdl, xs, totals, thr, mc, "a refined allele "
                           "can carry a variant without qualifying support")
    finally:
        cov_mod.__dict__.pop("max", None)
        minor.__dict__.pop("max", None)
    res["stats"] = {**dict(eng.stats), **res["stats"]}
    res["obligations"] = [{"label": o["label"], "status": o["status"], "secs": 0}
                          for o in res["obligations"]]
    return res


def run_cnfilter(cfg):
    import aldy.cn as cn
    import aldy.coverage as cov_mod

    res = new_result(cfg)
    gene = gengene.load(cfg["gene"], cfg["genome"])
    muts = stagelib.core_variants(gene)
    cn_list = ["1", "1"]
    base, xs, counts, totals, prof, thr, mc = sym_raw(gene, cn_list, muts)
    eng = Engine(name="c15c")
    cov_mod.max = symx.smax
    tag = f"cnfilter/{cfg['gene']}"

    def run():
        cov = stagelib.SymCoverage(gene, prof, counts, totals, identity_filter=False)
        return cn._filter_configs(gene, cov)

    def ok_cn(v):
        t = totals[v.pos]
        a = t * (thr / 20)
        return xs[v] >= z3.If(mc > a, mc, a)

    try:
        for dec, pc, configs_ in eng.explore(run, base, max_paths=20000):
            g = []
            for an, c in gene.cn_configs.items():
                if an not in gene.alleles:
                    g.append(z3.BoolVal(an in configs_))
                    continue
                alive = [z3.And([ok_cn(v) for v in gene.alleles[a].func_muts]
                                or [z3.BoolVal(True)]) for a in c.alleles]
                g.append(z3.BoolVal(an in configs_) == z3.Or(alive or [z3.BoolVal(False)]))
            s_, mdl = eng.prove([], z3.And(g))
            ob(res, f"{tag}: a configuration is dropped iff every allele of it has a core "
                    "variant below max(min_coverage, depth*threshold/cn_max)", s_)
            if s_ == "sat":
                cex_counts(res, cfg, "cnfilter", mdl, xs, totals, thr, mc,
                           "structure candidates filtered against the documented threshold")
            same = configs_ is not gene.cn_configs
            ob(res, f"{tag}: the catalogue's configuration table is copied, not edited",
               "holds" if same else "sat")
    finally:
        cov_mod.__dict__.pop("max", None)
    res["stats"] = {**dict(eng.stats), **res["stats"]}
    res["obligations"] = [{"label": o["label"], "status": o["status"], "secs": 0}
                          for o in res["obligations"]]
    return res


def run_consumes(cfg):
    """The model builders receive the object produced by the filter chain whose first
    step is the quality filter (identity of objects through the real entry points)."""
    import aldy.major as major
    import aldy.minor as minor

    res = new_result(cfg)
    gene = gengene.load("toy", "hg19")
    prof = Profile("c")
    pos = 100000104
    cov = Coverage(gene, prof, None, {pos: {"_": [(60, 60)] * 10, "T>A": [(60, 60)] * 10}},
                   None, {})
    chain = []
    real_f = Coverage.filtered

    def filt(self, fn):
        r = real_f(self, fn)
        chain.append((self, getattr(fn, "__name__", "?"), r))
        return r

    seen = {}
    Coverage.filtered = filt
    rm, rn = major.solve_major_model, minor.solve_minor_model
    major.solve_major_model = lambda g, c, *a, **k: seen.setdefault("major", c) and []
    minor.solve_minor_model = lambda g, c, *a, **k: seen.setdefault("minor", c) and []
    minor._pc, minor._print_candidates = minor._print_candidates, lambda *a, **k: None
    try:
        cn_sol = CNSolution(gene, 0, ["1", "1"])
        major.estimate_major(gene, cov, cn_sol, "any")
        first = [c for c in chain if c[0] is cov]
        okm = (len(chain) == 2 and chain[0][1] == "quality_filter" and chain[0][0] is cov
               and chain[1][0] is chain[0][2] and seen.get("major") is chain[1][2])
        ob(res, "consumes: estimate_major hands the model exactly filter2(filter_quality("
                "evidence))", "holds" if okm else "sat")
        chain.clear()
        ms = MajorSolution(0, {SolvedAllele(gene, "1"): 2}, cn_sol, [])
        minor.estimate_minor(gene, cov, [ms], "any")
        okn = (len(chain) == 2 and chain[0][1] == "quality_filter" and chain[0][0] is cov
               and chain[1][0] is chain[0][2] and seen.get("minor") is chain[1][2])
        ob(res, "consumes: estimate_minor hands the model exactly filter2(filter_quality("
                "evidence))", "holds" if okn else "sat")
        for k_, good in (("major", okm), ("minor", okn)):
            if not good:
                res["violations"].append({
                    "what": f"{k_} stage does not build its model from the quality-"
                            "filtered evidence", "key": "consumes",
                    "replay": {"kind": "none"}})
    finally:
        Coverage.filtered = real_f
        major.solve_major_model, minor.solve_minor_model = rm, rn
        minor._print_candidates = minor._pc
    res["stats"] = {"paths": 1, "queries": 0}
    return res


def _phase_sample(gene, extra, mq, n_extra=1):
    """reads parsed by the real _parse_read: 10 fragments with the first site's variant,
    10 with the second site's, plus `extra` discordant fragments of mapping quality mq."""
    import c06

    s = c06.new_sample(gene)
    s.profile = Profile("p")
    norm, muts = collections.defaultdict(list), collections.defaultdict(list)
    st = 5042
    ref = gene[st:st + 10]

    def read(name, a, b, q):
        seq = list(ref)
        if a:
            seq[2] = "T"  # 5044 G>T
        if b:
            seq[7] = "C"  # 5049 A>C
        s._parse_read(name, st, [(0, 10)], "".join(seq), norm, muts, q, [30] * 10)

    for i in range(10):
        read(f"a{i}", True, False, 50)
    for i in range(10):
        read(f"b{i}", False, True, 50)
    if extra:
        for i in range(n_extra):
            read(f"c{i}", True, True, mq)
    s._make_coverage(norm, muts)
    return s


def run_phase(cfg):
    """
    A read below the mapping-quality threshold must not influence the minor model: the
    real _parse_read parses one extra read with a *symbolic* mapping quality, the real
    estimate_minor (capturing backend) builds the model with and without it, and on the
    paths where the read fails the quality filter the two models must coincide.
    """
    import aldy.sam as sam_mod
    import aldy.minor as minor
    import aldy.common

    res = new_result(cfg)
    gene = gengene.load("GA", "hg19")
    eng = Engine(name="c15p", timeout_ms=120000)
    mq = z3.Int("mapq")
    base = [mq >= 0, mq <= 60]
    saved = sam_mod.__dict__.get("int")
    sam_mod.int = symx.sint
    cn_sol = CNSolution(gene, 0, ["1", "1"])
    mj = MajorSolution(0, collections.Counter({SolvedAllele(gene, "1"): 1,
                                               SolvedAllele(gene, "9"): 1}), cn_sol, [])

    def model_of(sample):
        aldy.common.json.clear()
        with symx.install() as inst:
            minor.estimate_minor(gene, sample.coverage, [mj], "z3")
            m = inst.models[-1]
        return (sorted(v.raw for v in m.vars), sorted(repr(c.lhs) + c.sense
                                                      for c in m.constrs),
                repr(m.objective))

    try:
        def run():
            a = model_of(_phase_sample(gene, False, 50))
            b = model_of(_phase_sample(gene, True, S(mq)))
            return a, b

        for dec, pc, (a, b) in eng.explore(run, base, max_paths=2000):
            low = eng.prove([], mq < 10)[0] == "unsat"
            if not low:
                ob(res, "phase: (read passes the mapping-quality filter)", "holds")
                continue
            same = a == b
            ob(res, "phase: a read below min_mapq leaves the minor model unchanged "
                    "(variables, constraints, objective)", "holds" if same else "sat")
            if not same:
                rp = {"kind": "phase", "mq": 0, "n": 30}
                okk, msg = replay(rp)
                res["stats"]["replays"] = res["stats"].get("replays", 0) + 1
                if okk:
                    res["violations"].append({"what": msg, "key": "phase-quality",
                                              "replay": rp})
                else:
                    res["inconclusive"].append(msg)
                    ob(res, "UNREPRODUCED counterexample: phase", "inconclusive")
    finally:
        if saved is None:
            sam_mod.__dict__.pop("int", None)
        else:
            sam_mod.int = saved
    seen = {}
    for v in res["violations"]:
        seen.setdefault(v["key"], v)
    res["violations"] = list(seen.values())
    if res["violations"]:
        for o in res["obligations"]:
            if o["status"] == "inconclusive":
                o["status"] = "known-finding"
        res["inconclusive"] = []
    res["stats"] = {**dict(eng.stats), **res["stats"]}
    return res


def replay_phase(o):
    """real estimate_minor + CBC with and without reads of mapping quality o['mq']."""
    import aldy.minor as minor

    gene = gengene.load("GA", "hg19")
    cn_sol = CNSolution(gene, 0, ["1", "1"])
    out = []
    for extra in (False, True):
        smp = _phase_sample(gene, extra, o["mq"], o["n"])
        mj = MajorSolution(0, collections.Counter({SolvedAllele(gene, "1"): 1,
                                                   SolvedAllele(gene, "9"): 1}), cn_sol, [])
        sols = minor.estimate_minor(gene, smp.coverage, [mj], "any")
        out.append([(round(x.score, 3), x._solution_nice()) for x in sols])
    return out[0] != out[1], (f"adding {o['n']} reads of mapping quality {o['mq']} (below "
                              f"min_mapq) changes the minor solution: {out[0]} -> {out[1]}")


LOWQ = {}


def cex_counts(res, cfg, stage, mdl, xs, totals, thr, mc, what):
    vals = {f"{m.pos}|{m.op}": float(symx.model_value(mdl, x)) for m, x in xs.items()}
    lqv = {f"{k[0]}|{k[1]}": float(symx.model_value(mdl, t))
           for k, t in LOWQ.get((cfg["gene"], cfg.get("genome")), {}).items()} \
        if stage == "major" or cfg.get("mapq0") else {}
    rp = {"kind": "counts", "stage": stage, "gene": cfg["gene"], "genome": cfg["genome"],
          "cn": cfg.get("cn", ["1", "1"]), "major": cfg.get("major"), "counts": vals,
          "lowq": lqv, "mapq0": bool(cfg.get("mapq0")),
          "totals": {str(k): v for k, v in totals.items()},
          "thr": float(symx.model_value(mdl, thr)), "mc": float(symx.model_value(mdl, mc))}
    okk, msg = replay(rp)
    res["stats"]["replays"] = res["stats"].get("replays", 0) + 1
    if okk:
        res["violations"].append({"what": f"{what}: {msg}", "key": f"thr:{stage}",
                                  "replay": rp})
    else:
        res["inconclusive"].append(f"{what}: {msg}")
        ob(res, f"UNREPRODUCED counterexample: {what}", "inconclusive")


def replay_counts(o):
    """Real filters on a real Coverage with integer counts (scaled x100)."""
    import aldy.major as major
    import aldy.minor as minor
    import aldy.cn as cn
    import c04

    gene = gengene.load(o["gene"], o["genome"])
    K = 100
    prof = Profile("r", threshold=o["thr"], min_coverage=o["mc"] * K)
    if o.get("mapq0"):
        prof.min_mapq = 0
    counts = {}
    for k, v in o["counts"].items():
        pos, op = k.split("|", 1)
        c = int(round(v * K))
        if c > 0:
            counts[Mutation(int(pos), op)] = c
    cov = stagelib.concrete_coverage(gene, prof, counts)
    for k, v in (o.get("lowq") or {}).items():
        pos, op = k.split("|", 1)
        n = int(round(v * K))
        if n > 0:
            cov._coverage.setdefault(int(pos), {}).setdefault(op, [])
            cov._coverage[int(pos)][op] = cov._coverage[int(pos)][op] + [(0, 0)] * n
    hq = stagelib.concrete_coverage(gene, prof, counts)
    cn_list = list(o["cn"])
    cn_sol = CNSolution(gene, 0, cn_list)

    def want(m):
        t = stagelib.table_depth(hq, m.pos)
        c = counts.get(m, 0)
        okk = c >= max(prof.min_coverage, t * prof.threshold / 20)
        if m.op != "_":
            okk = okk and c >= t * prof.threshold / (stagelib.position_cn(gene, cn_list, m.pos)
                                                     + 0.5)
        return okk

    if o["stage"] == "major":
        try:
            major.estimate_major(gene, cov, cn_sol, "any")
        except Exception as e:  # noqa
            return True, f"estimate_major raised {type(e).__name__}: {e} [counts {o['counts']}]"
        alleles, covf = major._filter_alleles(gene, cov, cn_sol)
        muts = stagelib.core_variants(gene)
    elif o["stage"] == "minor":
        seen = {}
        real = minor.solve_minor_model
        minor.solve_minor_model = lambda g, c, *a, **k: seen.setdefault("c", c) and []
        try:
            ms = MajorSolution(0, {SolvedAllele(gene, a): c for a, c in o["major"].items()},
                               cn_sol, [])
            minor.estimate_minor(gene, cov, [ms], "any")
        finally:
            minor.solve_minor_model = real
        covf = seen["c"]
        muts = c04.considered(gene, o["major"])
        alleles = None
    else:
        cfgs = cn._filter_configs(gene, cov)
        bad = []
        for an, c in gene.cn_configs.items():
            if an not in gene.alleles:
                continue
            alive = any(all(counts.get(v, 0) >= max(prof.min_coverage,
                                                     stagelib.table_depth(cov, v.pos) * prof.threshold / 20)
                            for v in gene.alleles[a].func_muts) for a in c.alleles)
            if alive != (an in cfgs):
                bad.append(an)
        return bool(bad), f"configurations {bad} kept/dropped against the threshold"
    bad = []
    for m in muts:
        kept = covf.coverage(m) > 0
        # values within float noise of a threshold are not decidable concretely
        if kept != want(m):
            bad.append(str(m))
    msg = f"variants {bad} kept/dropped against the documented thresholds"
    if alleles is not None and not bad:
        for a, al in gene.alleles.items():
            if al.cn_config in cn_list:
                sup = all(want(v) for v in al.func_muts)
                if sup != (a in alleles):
                    bad.append(f"allele {a}")
        msg = f"{bad} candidate status against qualifying support"
    return bool(bad), msg + f" [counts x100 {o['counts']} thr {o['thr']} min {o['mc']}]"


THRESHOLDS = ("min_quality", "min_mapq", "threshold", "min_coverage")


def run_thresholdroute(cfg):
    import c18

    res = new_result(cfg)
    eng = Engine(name="c15t")
    fv = c18.frame_values()
    names = sorted(fv)
    ths = [t for t in THRESHOLDS if t in fv]
    ai, bi, ri, oi = z3.Int("a"), z3.Int("b"), z3.Int("route"), z3.Int("order")

    def run():
        a = ths[eng.choose(ai, range(len(ths)))]
        b = names[eng.choose(bi, range(len(names)))]
        if a == b:
            raise symx.PathAbort()
        r = c18.FRAME_ROUTES[eng.choose(ri, range(len(c18.FRAME_ROUTES)))]
        if eng.choose(oi, range(2)):
            a, b = b, a
        # only the thresholds themselves are this property's business
        return (a, b, r), [p for p in c18.frame_case(a, b, r, fv)
                           if p.split(" ")[0] in THRESHOLDS or p.startswith("rejected")]

    k = 0
    for dec, pc, ((a, b, r), probs) in eng.explore(run, [], max_paths=100000):
        k += 1
        ob(res, "thresholdroute: a quality / support threshold given together with another "
                "parameter reaches the profile through every route", "holds" if not probs
           else "sat")
        if probs:
            res["violations"].append({
                "what": f"parameters {a}={fv[a][0]!r}, {b}={fv[b][0]!r} via {r}: "
                        + "; ".join(probs[:3]), "key": f"thresholdroute:{r}:{probs[0].split(' ')[0]}",
                "replay": {"kind": "thresholdroute", "a": a, "b": b, "route": r}})
    seen = {}
    for v_ in res["violations"]:
        seen.setdefault(v_["key"], v_)
    res["violations"] = list(seen.values())
    res["stats"] = {**dict(eng.stats), "paths": k}
    return res


def replay_thresholdroute(o):
    import c18

    probs = [p for p in c18.frame_case(o["a"], o["b"], o["route"])
             if p.split(" ")[0] in THRESHOLDS or p.startswith("rejected")]
    return bool(probs), f"{o['a']} / {o['b']} via {o['route']}: {probs[:3]}"


def replay_none(o):
    return True, "observed directly on the real code"


def replay(o):
    return globals()["replay_" + o["kind"]](o)
