"""
C14 -- genotyping is deterministic, isolated and leaves the database untouched (partial).

  purity     every public accessor of the solution / gene / coverage objects, the three
             stage entry points, the filters, both writers and the query printer are
             called (argument choices -- allele, minor, added / lost subsets -- are z3
             variables concretised by the engine) and a deep structural digest of the Gene
             and of the evidence is compared before and after each call
  candidates the real estimate_minor with solve_minor_model stubbed to a recorder runs on
             *symbolic* read counts for two candidate major solutions with different gene
             structures, in both orders and alone; z3 decides whether the evidence handed
             to the model for one candidate can depend on its company / the order
  store      the process-wide debug store (aldy.common.json) is never read by a stage:
             every stage is re-run with a poisoned store and must return the same result
  hashorder  the order in which Python iterates the set of considered variants (= the hash
             seed) must not influence the minor model: for every evidence table of a grid
             the real estimate_minor builds its model under two injected iteration orders;
             identical construction sequences settle it, otherwise z3.Optimize decides
             whether the optimum under one order is optimal under the other and whether
             it is unique; a candidate is reported only after fresh processes with
             different PYTHONHASHSEED really disagree
Outside (stated, not sampled): fresh processes in general, multi-gene runs through files,
iteration order inside the major / structure models (their enumeration reports every
optimum, C05).
"""
import io
import copy
import pickle
import contextlib
import collections
import z3

import symx
import gengene
import stagelib
from symx import S, Engine
from vcommon import new_result, ob
from aldy.gene import Mutation
from aldy.profile import Profile
from aldy.solutions import CNSolution, MajorSolution, MinorSolution, SolvedAllele
from aldy.coverage import Coverage

PROPERTY = "C14"
LEVEL = "other"
EXPLANATION = ("partial claim: (a) purity of accessors/stages/writers by solver-driven "
               "exploration of argument choices with before/after digests of the Gene and "
               "the evidence; (b) candidate independence of the minor stage decided by z3 "
               "on symbolic read counts through the real estimate_minor; (c) poisoned "
               "debug store; (d) independence of the minor model from the iteration (hash) "
               "order of the variant set, decided by model-sequence identity / z3.Optimize "
               "on the captured models and confirmed with real hash seeds. Multi-gene file "
               "runs and process-level effects other than the hash seed are not claimed.")
FUNCTIONS = ["aldy.sam.Sample.__init__ (tail) / Coverage.average_coverage on an empty locus",
             "aldy.minor.solve_minor_model (construction order)",
             "aldy.solutions.SolvedAllele.{mutations,major_repr,__str__,__hash__}",
             "aldy.solutions.MinorSolution.{get_*,_solution_nice}",
             "aldy.solutions.{CNSolution,MajorSolution}.{__str__,_solution_nice,position_cn}",
             "aldy.gene.Gene.{get_functional,is_functional,get_rsid,get_refseq,get_allele,"
             "has_coverage,region_at,deletion_allele,get_wide_region,__getitem__}",
             "aldy.coverage.Coverage.{filtered,dump,percentage,single_copy,total,coverage}",
             "aldy.cn.{estimate_cn,_filter_configs}", "aldy.major.estimate_major",
             "aldy.minor.estimate_minor", "aldy.diplotype.{write_decomposition,write_vcf,"
             "estimate_diplotype}", "aldy.query.query"]
STUBS = ["candidates: minor.solve_minor_model -> recorder of the coverage it is handed; "
         "observation lists have symbolic lengths; the real Coverage.coverage/total/filtered and the real filter functions run on them",
         "hashorder: aldy.minor.set -> set subclass with an injected iteration order; "
         "lpinterface.model -> capturing backend"]
OUTSIDE = ["multi-gene recursion through files / a failing gene in a multi-gene run "
           "(process and I/O level); hash-order effects outside solve_minor_model (the "
           "major and structure stages report every optimum of their models)"]
ASSUMPTIONS = ["digest = pickle of the Gene's public tables (alleles, configurations, "
               "mutations, regions, maps) and of the coverage tables"]
RULE = ("one evaluation = one accessor/stage call with solver-chosen arguments and a "
        "before/after digest, or one z3 query of the candidate-independence part")


def BOUNDS(tier):
    return ["purity: genes toy, GA; every allele/minor of the gene as receiver (symbolic "
            "index), added/lost subsets of <=1 variant", "candidates: toy and GA, two "
            "candidates with structures of 2 and 3 copies, symbolic counts, all orders",
            "hashorder: GA hg19, major *1/*2 with and without two novel substitutions at one "
            "site; evidence grid 0/10/20 reads per considered variant (162 / 27 tables); "
            "reference order vs " + ("11 / 4" if tier == "thorough" else "4 / 2") +
            " permuted orders (transpositions, reversal); confirmation with hash seeds "
            f"0..{HASH_SEEDS - 1}"]


def configs(tier):
    c = []
    for g in ("toy", "GA") + (("GB", "GD") if tier == "thorough" else ()):
        c.append({"kind": "purity", "gene": g})
        c.append({"kind": "stages", "gene": g})
        c.append({"kind": "candidates", "gene": g})
    # a gene that cannot be genotyped must end in a *reported* error (AldyException): the
    # multi-gene loop catches only those, anything else aborts the other genes' results.
    # Real Sample() tail on an empty locus with symbolic neutral depths (shared with C19)
    c.append({"kind": "neutral"})
    # per-run isolation of genotype(): what a run sees of the gene database depends on its
    # own arguments only, not on the runs before it
    c.append({"kind": "isolation"})
    # a candidate that hands over a novel variant, refined before / after another candidate:
    # the model built for it must be the one it gets alone (shared with C04)
    import c04
    c += [x for x in c04.configs(tier) if x.get("company")]
    # iteration (hash) order of the variant set in the minor model
    two = [[5060, "A>C"], [5060, "A>G"]]
    for perm in range(4 if tier == "quick" else 11):
        c.append({"kind": "hashorder", "gene": "GA", "genome": "hg19", "cn": ["1", "1"],
                  "major": {"1": 1, "2": 1}, "added": two, "perm": perm})
    for perm in range(2 if tier == "quick" else 4):
        c.append({"kind": "hashorder", "gene": "GA", "genome": "hg19", "cn": ["1", "1"],
                  "major": {"1": 1, "2": 1}, "added": None, "perm": perm})
    return c


def run_config(cfg):
    if cfg.get("company"):
        import c04
        return c04.run_config(cfg)
    if cfg["kind"] == "neutral":
        import c19
        return c19.run_neutral(cfg)
    return globals()["run_" + cfg["kind"]](cfg)


def digest(gene):
    def norm(x):
        if isinstance(x, dict):
            return tuple(sorted(((repr(k), norm(v)) for k, v in x.items())))
        if isinstance(x, (set, frozenset)):
            return tuple(sorted(repr(norm(i)) for i in x))
        if isinstance(x, (list, tuple)):
            return tuple(norm(i) for i in x)
        if hasattr(x, "__dataclass_fields__"):
            return (type(x).__name__,) + tuple(norm(getattr(x, f))
                                               for f in x.__dataclass_fields__
                                               if f != "gene")
        return repr(x)

    parts = {k: norm(getattr(gene, k)) for k in
             ("alleles", "cn_configs", "mutations", "regions", "unique_regions",
              "random_mutations", "common_tandems", "removed", "pseudogenes", "exons",
              "do_copy_number", "chr", "strand", "seq", "aminoacid")}
    return parts


def cov_digest(cov):
    return (repr(sorted((p, sorted((o, tuple(l)) for o, l in d.items()))
                        for p, d in cov._coverage.items())),
            repr(sorted((cov._indels or {}).items())), repr(sorted(cov._cnv_coverage.items())))


def diff(a, b):
    return [k for k in a if a[k] != b[k]]


# ------------------------------------------------------------------ purity of accessors


def run_purity(cfg):
    res = new_result(cfg)
    gene = gengene.load(cfg["gene"], "hg19")
    gene = copy.deepcopy(gene)  # never touch the cached instance
    eng = Engine(name="c14")
    pairs = [(a, mi) for a in sorted(gene.alleles) for mi in sorted(gene.alleles[a].minors)]
    allm = sorted(Mutation(*m) for m in gene.mutations)
    ai = z3.Int("allele")
    add, lose = z3.Bool("add"), z3.Bool("lose")
    base = [ai >= 0, ai < len(pairs)]
    d0 = digest(gene)
    calls = [
        ("SolvedAllele.mutations", lambda sa, ms: sa.mutations()),
        ("SolvedAllele.major_repr", lambda sa, ms: sa.major_repr()),
        ("SolvedAllele.__str__", lambda sa, ms: str(sa)),
        ("SolvedAllele.__hash__", lambda sa, ms: hash(sa)),
        ("MinorSolution.get_major_name", lambda sa, ms: ms.get_major_name(0)),
        ("MinorSolution.get_minor_name", lambda sa, ms: ms.get_minor_name(0, True)),
        ("MinorSolution.get_major_diplotype", lambda sa, ms: ms.get_major_diplotype()),
        ("MinorSolution.get_minor_diplotype", lambda sa, ms: ms.get_minor_diplotype()),
        ("MinorSolution._solution_nice", lambda sa, ms: (ms._solution_nice(), str(ms))),
        ("MinorSolution.get_mutation_coverages",
         lambda sa, ms: ms.get_mutation_coverages(ms._cov)),
        ("Gene.get_functional/get_rsid/get_refseq",
         lambda sa, ms: [(gene.get_functional(m), gene.get_rsid(m), gene.get_refseq(m),
                          gene.is_functional(m, False)) for m in allm]),
        ("Gene.get_allele/has_coverage/region_at",
         lambda sa, ms: [(gene.get_allele(sa.minor), gene.has_coverage(sa.major, m.pos),
                          gene.region_at(m.pos)) for m in allm]),
        ("Gene.deletion_allele/get_wide_region/__getitem__",
         lambda sa, ms: (gene.deletion_allele(), gene.get_wide_region(),
                         gene[allm[0].pos:allm[0].pos + 3])),
    ]

    def run():
        a, mi = pairs[eng.choose(ai, range(len(pairs)))]
        d = set(gene.alleles[a].func_muts) | set(gene.alleles[a].minors[mi].neutral_muts)
        added = [next(m for m in allm if m not in d)] if eng.branch(add) else []
        neutral = sorted(gene.alleles[a].minors[mi].neutral_muts)
        missing = [neutral[0]] if (eng.branch(lose) and neutral) else []
        bad = []
        for name, fn in calls:
            sa = SolvedAllele(gene, a, mi, list(added), list(missing))
            cn = CNSolution(gene, 0, [gene.alleles[a].cn_config])
            mj = MajorSolution(0, collections.Counter([SolvedAllele(gene, a)]), cn, [])
            ms = MinorSolution(0, [sa], mj, profile=Profile("p"))
            ms.set_diplotype(([0], []))
            ms._cov = stagelib.concrete_coverage(gene, Profile("p"), {m: 5 for m in allm})
            try:
                fn(sa, ms)
            except Exception as e:  # noqa
                bad.append((name, f"raised {type(e).__name__}: {e}"))
                continue
            d1 = digest(gene)
            if d1 != d0:
                bad.append((name, f"changed the database: {diff(d0, d1)} "
                                  f"(receiver *{mi}, added {added}, lost {missing})"))
                # restore for the remaining calls
                for k_ in ("alleles", "cn_configs", "mutations"):
                    setattr(gene, k_, copy.deepcopy(getattr(PRISTINE[cfg["gene"]], k_)))
        return (a, mi, bool(added), bool(missing)), bad

    PRISTINE[cfg["gene"]] = copy.deepcopy(gene)
    for dec, pc, (case, bad) in eng.explore(run, base):
        names = {n for n, _ in bad}
        for name, _ in calls:
            ob(res, f"purity/{cfg['gene']}: {name} leaves the catalogue untouched",
               "sat" if name in names else "holds")
        for name, msg in bad:
            res["violations"].append({
                "what": f"{cfg['gene']}: {name} {msg}", "key": f"purity:{name}",
                "replay": {"kind": "purity", "gene": cfg["gene"], "call": name,
                           "case": list(case)}})
    seen = {}
    for v in res["violations"]:
        seen.setdefault(v["key"], v)
    res["violations"] = list(seen.values())
    res["stats"] = dict(eng.stats)
    res["obligations"] = [{"label": o["label"], "status": o["status"], "secs": 0}
                          for o in res["obligations"]]
    return res


PRISTINE = {}


def replay_purity(o):
    gene = copy.deepcopy(gengene.load(o["gene"], "hg19"))
    a, mi, ad, lo = o["case"]
    allm = sorted(Mutation(*m) for m in gene.mutations)
    d = set(gene.alleles[a].func_muts) | set(gene.alleles[a].minors[mi].neutral_muts)
    added = [next(m for m in allm if m not in d)] if ad else []
    neutral = sorted(gene.alleles[a].minors[mi].neutral_muts)
    missing = [neutral[0]] if (lo and neutral) else []
    d0 = digest(gene)
    sa = SolvedAllele(gene, a, mi, added, missing)
    if o["call"] == "SolvedAllele.mutations":
        sa.mutations()
    else:
        return False, "only the accessor named in the finding is replayed"
    d1 = digest(gene)
    return d0 != d1, (f"SolvedAllele(*{mi}, added={added}, lost={missing}).mutations() "
                      f"changed gene.{diff(d0, d1)}")


# ------------------------------------------------------------------ stages and writers


def run_stages(cfg):
    import aldy.cn as cn
    import aldy.major as major
    import aldy.minor as minor
    import aldy.common
    from aldy.diplotype import write_decomposition, write_vcf
    from aldy.query import query

    res = new_result(cfg)
    gene = copy.deepcopy(gengene.load(cfg["gene"], "hg19"))
    d0 = digest(gene)
    prof = Profile("p")
    core = stagelib.core_variants(gene)
    counts = {}
    for i, m in enumerate(core):
        if i % 2 == 0:
            counts[m] = 10
            counts[Mutation(m.pos, "_")] = 10
    # realigned-indel table: one catalogued indel well supported, the others at a
    # fraction the threshold filters reject
    indels = {}
    for i, (pos, op) in enumerate(sorted(k for k in gene.mutations
                                         if k[1][:3] in ("ins", "del"))):
        indels[pos, op] = (10, 10) if i == 0 else (18, 2)
    covd = collections.defaultdict(dict)
    for m, c in counts.items():
        covd[m.pos][m.op] = [(60, 60)] * c
    cov = Coverage(gene, prof, None, covd, indels, {})
    c0 = cov_digest(cov)
    cn_sol = CNSolution(gene, 0, ["1", "1"])
    out = {}

    def step(name, fn):
        for poisoned in (False, True):
            aldy.common.json.clear()
            if poisoned:
                aldy.common.json[gene.name]["cn"]["sol"] = "POISON"
                aldy.common.json[gene.name]["major"][0]["sol"] = "POISON"
                aldy.common.json["x"] = 1
            try:
                with contextlib.redirect_stdout(io.StringIO()):
                    r = fn()
            except Exception as e:  # noqa
                r = f"raised {type(e).__name__}: {e}"
            key = repr(r) if not isinstance(r, list) else repr([str(x) for x in r])
            out.setdefault(name, []).append(key)
            d1, c1 = digest(gene), cov_digest(cov)
            good = d1 == d0 and c1 == c0
            ob(res, f"stages/{cfg['gene']}: {name} leaves database and evidence untouched"
                    + (" (poisoned debug store)" if poisoned else ""),
               "holds" if good else "sat")
            if not good:
                res["violations"].append({
                    "what": f"{cfg['gene']}: {name} modified "
                            f"{diff(d0, d1) or 'the evidence'}", "key": f"stage:{name}",
                    "replay": {"kind": "none"}})
        same = len(set(out[name])) == 1
        ob(res, f"stages/{cfg['gene']}: {name} gives the same result again and with a "
                "poisoned debug store", "holds" if same else "sat")
        if not same:
            res["violations"].append({
                "what": f"{cfg['gene']}: {name} depends on the process-wide debug store / "
                        f"is not repeatable: {out[name]}", "key": f"repeat:{name}",
                "replay": {"kind": "none"}})
        return r

    majors = step("estimate_major", lambda: major.estimate_major(gene, cov, cn_sol, "any"))
    if isinstance(majors, list) and majors:
        minors = step("estimate_minor", lambda: minor.estimate_minor(gene, cov, majors[:1],
                                                                     "any"))
    else:
        minors = []
    step("cn._filter_configs", lambda: sorted(cn._filter_configs(gene, cov)))
    step("Coverage.filtered/dump/percentage",
         lambda: (cov.filtered(Coverage.quality_filter).dump(lambda s: None),
                  [cov.percentage(m) for m in core]))
    if isinstance(minors, list) and minors:
        step("write_decomposition", lambda: write_decomposition(
            "S", gene, cov, 1, minors[0], io.StringIO()))
        step("write_vcf", lambda: write_vcf("S", gene, cov, minors, io.StringIO()))
    step("query", lambda: query(gene, ""))
    res["stats"] = {"paths": len(res["obligations"])}
    return res


# ------------------------------------------------------------------ candidate independence


def run_candidates(cfg):
    import aldy.minor as minor
    import aldy.coverage as cov_mod
    import aldy.common
    import c15

    res = new_result(cfg)
    gene = gengene.load(cfg["gene"], "hg19")
    eng = Engine(name="c14c", timeout_ms=120000)
    first = sorted(a for a, al in gene.alleles.items() if al.cn_config == "1"
                   and al.func_muts)[0]
    mjA = {"cn": ["1", "1"], "major": {"1": 1, first: 1}}
    mjB = {"cn": ["1", "1", "1"], "major": {"1": 2, first: 1}}
    import c04
    muts = c04.considered(gene, mjA["major"])
    base, xs, counts, totals, prof, thr, mc = c15.sym_raw(gene, mjA["cn"], muts)
    tag = f"candidates/{cfg['gene']}"

    def mk(d):
        cn_sol = CNSolution(gene, 0, d["cn"])
        return MajorSolution(0, {SolvedAllele(gene, a): c for a, c in d["major"].items()},
                             cn_sol, [])

    A, B = mk(mjA), mk(mjB)
    # a third candidate with A's gene structure held in a separate (equal) structure object
    mjC = {"cn": ["1", "1"], "major": {"1": 2}}
    C = mk(mjC)
    cov_mod.max = symx.smax
    rec = {}
    real = minor.solve_minor_model

    def spy(gene_, coverage, major_sol, *a, **k):
        rec[id(major_sol)] = frozenset(coverage._sc)
        return []

    minor.solve_minor_model = spy
    minor._pc = minor._print_candidates
    minor._print_candidates = lambda *a, **k: None
    try:
        def run():
            aldy.common.json.clear()
            outs = {}
            for name, lst in (("A alone", [A]), ("A,B", [A, B]), ("B,A", [B, A]),
                              ("A,C", [A, C]), ("C,A", [C, A])):
                rec.clear()
                cov = stagelib.SymCoverage(gene, prof, counts, totals, identity_filter=False)
                minor.estimate_minor(gene, cov, lst, "any")
                outs[name] = rec.get(id(A))
            return outs

        for dec, pc, outs in eng.explore(run, base, max_paths=20000):
            for other, spec_, key_ in (("B", mjB, "candidate-filter"),
                                       ("C", mjC, "candidate-same-structure")):
                same = len({outs[n_] for n_ in ("A alone", f"A,{other}", f"{other},A")}) == 1
                ob(res, f"{tag}: the evidence handed to the model for candidate A is the "
                        "same alone, before and after another candidate"
                        + (" of a different gene structure" if other == "B" else
                           " of the same gene structure (separate structure object)"),
                   "holds" if same else "sat")
                if same:
                    continue
                st, mdl = eng.satisfiable([z3.IsInt(x) for x in xs.values()])
                if st != "sat":
                    st, mdl = eng.satisfiable([])
                vals = {f"{m.pos}|{m.op}": float(symx.model_value(mdl, x))
                        for m, x in xs.items()}
                rp = {"kind": "candidates", "gene": cfg["gene"], "counts": vals,
                      "thr": float(symx.model_value(mdl, thr)),
                      "mc": float(symx.model_value(mdl, mc)), "A": mjA, "B": spec_}
                okk, msg = replay(rp)
                res["stats"]["replays"] = res["stats"].get("replays", 0) + 1
                if okk:
                    res["violations"].append({"what": f"{tag}: {msg}", "key": key_,
                                              "replay": rp})
                else:
                    res["inconclusive"].append(msg)
                    ob(res, f"UNREPRODUCED counterexample: {tag}", "inconclusive")
    finally:
        minor.solve_minor_model = real
        minor._print_candidates = minor._pc
        cov_mod.__dict__.pop("max", None)
    seen = {}
    for v in res["violations"]:
        seen.setdefault(v["key"], v)
    res["violations"] = list(seen.values())
    if res["violations"]:
        # the dependence is confirmed on the real code for at least one evidence table:
        # other paths of the same obligation whose particular concretisation happened not
        # to change the optimum are the same root cause, not open questions
        for o in res["obligations"]:
            if o["status"] == "inconclusive":
                o["status"] = "known-finding"
        res["inconclusive"] = []
    res["stats"] = {**dict(eng.stats), **res["stats"]}
    res["obligations"] = [{"label": o["label"], "status": o["status"], "secs": 0}
                          for o in res["obligations"]]
    return res


import aldy.minor as _minor_mod

_REAL_SOLVE = _minor_mod.solve_minor_model
_REAL_PRINT = _minor_mod._print_candidates


def replay_candidates(o):
    """real estimate_minor + CBC: candidate A alone vs together with B (both orders)."""
    import aldy.minor as minor

    saved = (minor.solve_minor_model, minor._print_candidates)
    minor.solve_minor_model, minor._print_candidates = _REAL_SOLVE, _REAL_PRINT
    try:
        return _replay_candidates(o)
    finally:
        minor.solve_minor_model, minor._print_candidates = saved


def _replay_candidates(o):
    import aldy.minor as minor

    gene = gengene.load(o["gene"], "hg19")
    K = 10
    prof = Profile("r", threshold=o["thr"], min_coverage=max(1.0, o["mc"]) * K)
    counts = {}
    for k, v in o["counts"].items():
        pos, op = k.split("|", 1)
        c = int(round(v * K))
        if c > 0:
            counts[Mutation(int(pos), op)] = c
    cov = stagelib.concrete_coverage(gene, prof, counts)

    def mk(d):
        cn_sol = CNSolution(gene, 0, d["cn"])
        return MajorSolution(0, collections.Counter(
            {SolvedAllele(gene, a): c for a, c in d["major"].items()}), cn_sol, [])

    res = {}
    for name, order in (("alone", "A"), ("A,B", "AB"), ("B,A", "BA")):
        lst = [mk(o[x]) for x in order]
        try:
            sols = minor.estimate_minor(gene, cov, lst, "any")
        except Exception as e:  # noqa
            sols = f"raised {type(e).__name__}"
        if isinstance(sols, str):
            res[name] = sols
        else:
            a_sol = dict(mk(o["A"]).solution)
            res[name] = sorted((round(s.score, 4), s._solution_nice()) for s in sols
                               if dict(s.major_solution.solution) == a_sol)
    return len({repr(v) for v in res.values()}) > 1, (
        f"refinement of candidate {o['A']['major']} depends on its company: {res} "
        f"[counts x10 {o['counts']}, threshold {o['thr']}]")


# ------------------------------------------------------------------ run isolation


def run_isolation(cfg):
    """sequences of 2-3 genotype() calls with different profile kinds on one gene (real
    genotype(), stubbed stages): the gene database handed to the structure stage of a run
    has copy-number calling switched off exactly when that run's own profile is an
    exome-type profile."""
    import genoharness

    res = new_result(cfg)
    eng = Engine(name="c14i")
    kinds = ["illumina", "exome", "wxs", "wes", "pgx1"]
    sel = [z3.Int(f"profile{i}") for i in range(3)]
    n = z3.Int("runs")
    plan = {"cn": [["1", "1"]], "major": {0: [{"1": 2}]}, "minor": {(0, 0): 1}}

    def run():
        k = eng.choose(n, (2, 3))
        seq = [kinds[eng.choose(sel[i], range(len(kinds)))] for i in range(k)]
        seen = []
        for pn in seq:
            h = genoharness.Harness(plan, lambda kind, i: 1.0)
            try:
                h.run(profile_name=pn)
                seen.append(dict(h.seen_gene))
            except Exception as e:  # noqa
                seen.append({"error": f"{type(e).__name__}: {e}"})
        return seq, seen

    k_ = 0
    for dec, pc, (seq, seen) in eng.explore(run, [], max_paths=10000):
        k_ += 1
        bad = [i for i, (pn, s_) in enumerate(zip(seq, seen))
               if "error" in s_ or s_["do_copy_number"] != (pn not in ("exome", "wxs", "wes"))]
        ob(res, "isolation: copy-number calling is off exactly in the runs whose own profile "
                "is an exome-type profile", "holds" if not bad else "sat")
        if bad:
            res["violations"].append({
                "what": f"isolation: profiles {seq}: run {bad[0] + 1} ({seq[bad[0]]}) sees "
                        f"{seen[bad[0]]}", "key": "isolation",
                "replay": {"kind": "isolation", "seq": seq}})
    seen_ = {}
    for v in res["violations"]:
        seen_.setdefault(v["key"], v)
    res["violations"] = list(seen_.values())
    res["stats"] = {**dict(eng.stats), "paths": k_}
    res["obligations"] = [{"label": o["label"], "status": o["status"], "secs": 0}
                          for o in res["obligations"]]
    return res


def replay_isolation(o):
    import genoharness

    plan = {"cn": [["1", "1"]], "major": {0: [{"1": 2}]}, "minor": {(0, 0): 1}}
    out = []
    for pn in o["seq"]:
        h = genoharness.Harness(plan, lambda kind, i: 1.0)
        h.run(profile_name=pn)
        out.append(h.seen_gene["do_copy_number"])
    want = [pn not in ("exome", "wxs", "wes") for pn in o["seq"]]
    return out != want, f"profiles {o['seq']}: copy-number calling seen as {out}"


# ------------------------------------------------------------------ iteration (hash) order


class PermSet(set):
    """set whose iteration order over variants is a chosen permutation: the stand-in for
    'the order a set of (int, str) tuples happens to have under some hash seed'."""

    order = {}

    def __iter__(self):
        items = list(set.__iter__(self))
        return iter(sorted(items, key=lambda x: (
            (PermSet.order.get(x, 10 ** 6), x) if isinstance(x, tuple) else (0, x))))

    def __or__(self, o):
        return PermSet(set.__or__(self, o))

    __ror__ = __or__

    def __and__(self, o):
        return PermSet(set.__and__(self, o))

    def __sub__(self, o):
        return PermSet(set.__sub__(self, o))

    def copy(self):
        return PermSet(self)


HASH_SEEDS = 24
HD = 10  # reads per copy


def _ho_added(gene, spec):
    return [Mutation(int(p), op) for p, op in (spec or [])]


def _ho_tables(gene, cfg, muts):
    """evidence grid: every considered variant seen on 0, 1, ... copies (HD reads per copy),
    at most the locus depth per site."""
    import itertools

    tot = {m: HD * stagelib.position_cn(gene, cfg["cn"], m.pos) for m in muts}
    doms = [range(0, int(tot[m]) + 1, HD) for m in muts]
    for vals in itertools.product(*doms):
        bypos = collections.Counter()
        for m, v in zip(muts, vals):
            if not stagelib.is_ins(m):
                bypos[m.pos] += v
        if all(bypos[m.pos] <= tot[m] for m in muts):
            yield {f"{m.pos}|{m.op}": v for m, v in zip(muts, vals)}


def _ho_capture(o, order):
    """the model the real estimate_minor builds for the evidence o under an injected
    iteration order of the variant set (capture backend, real Coverage and filters)."""
    import aldy.minor as minor
    import aldy.common

    gene, cov, msol = _ho_inputs(o)
    PermSet.order = {Mutation(int(p), op): i for i, (p, op) in enumerate(order)}
    saved = minor.__dict__.get("set")
    minor.set = PermSet
    try:
        aldy.common.json.clear()
        with symx.install() as inst, contextlib.redirect_stdout(io.StringIO()):
            minor.estimate_minor(gene, cov, [msol], "z3")
            return inst.models[-1] if inst.models else None
    finally:
        if saved is None:
            minor.__dict__.pop("set", None)
        else:
            minor.set = saved


def _ho_optimize(M, fixed=None, at_most=None, differs=None):
    """z3.Optimize over the captured model; fixed: selector raw name -> bool."""
    o = z3.Optimize()
    o.set("timeout", 60000)
    for c in M.z3_constraints():
        o.add(c)
    for name, val in (fixed or {}).items():
        o.add(M.byraw[name].zv == val)
    if at_most is not None:
        o.add(M.obj_z3() <= at_most)
    if differs is not None:
        o.add(z3.Or([M.byraw[n].zv != v for n, v in differs.items()]))
    o.minimize(M.obj_z3())
    r = o.check()
    if r != z3.sat:
        return str(r), None, None
    mdl = o.model()
    point = {v.raw: z3.is_true(mdl.eval(v.zv, model_completion=True)) for v in M.vars
             if v.kind == "B" and v.raw.split("_")[0] in ("A", "K", "N")}
    return "sat", symx.model_value(mdl, M.obj_z3()), point


def _ho_sequence(M):
    def num(k):
        if isinstance(k, S):
            return float(z3.simplify(k.t).as_fraction())
        return float(k)

    def lin(e):
        return [(v.name, num(k)) for v, k in e.terms.items()], num(e.const)

    return ([(v.name, v.kind, v.lb, v.ub) for v in M.vars],
            [(c.name, c.sense, lin(c.lhs)) for c in M.constrs], lin(M.objective))


def _ho_signature(point):
    """what an assignment reports: multiset of (allele, kept variants, added variants)."""
    out = []
    for n, v in point.items():
        if v and n.startswith("A_"):
            suf = n[1:]  # _major_minor_copy
            kept = sorted(k[2:-len(suf)] for k, kv in point.items()
                          if kv and k.startswith("K_") and k.endswith(suf))
            add = sorted(k[2:-len(suf)] for k, kv in point.items()
                         if kv and k.startswith("N_") and k.endswith(suf))
            out.append((suf.rsplit("_", 1)[0], tuple(kept), tuple(add)))
    return sorted(out)


def run_hashorder(cfg):
    """Does the set of optimal refinements depend on the order in which the set of
    considered variants is iterated (= on the hash seed)?  For every evidence table of the
    grid the real estimate_minor builds its model twice (reference order / permuted
    order); z3.Optimize decides whether the optimum under one order is optimal under the
    other, and whether the optimum is unique."""
    import itertools
    import time
    import c04

    res = new_result(cfg)
    gene = gengene.load(cfg["gene"], cfg["genome"])
    added = _ho_added(gene, cfg.get("added"))
    muts = c04.considered(gene, cfg["major"], added)
    tag = f"hashorder/{cfg['gene']}/{cfg['genome']}/{cfg['major']}" + (
        "+novel" if cfg.get("added") else "") + f"/perm{cfg['perm']}"
    n = len(muts)
    ident = [[m.pos, m.op] for m in muts]
    perms = []
    for i, j in itertools.combinations(range(n), 2):
        o = list(ident)
        o[i], o[j] = o[j], o[i]
        perms.append(o)
    perms.append(list(reversed(ident)))
    pi2 = perms[cfg["perm"] % len(perms)]
    stats = collections.Counter()
    confirmed = set()
    for table in _ho_tables(gene, cfg, muts):
        o = {"kind": "hashorder", "gene": cfg["gene"], "genome": cfg["genome"],
             "cn": list(cfg["cn"]), "major": cfg["major"], "added": cfg.get("added"),
             "counts": table, "pi1": ident, "pi2": pi2}
        t0 = time.time()
        M1, M2 = _ho_capture(o, ident), _ho_capture(o, pi2)
        stats["tables"] += 1
        if M1 is None or M2 is None:
            ob(res, f"{tag}: a model is built for both orders", "holds"
               if (M1 is None) == (M2 is None) else "sat")
            continue
        # identical construction sequence (variables, constraints, objective) under both
        # orders: the solver gets the same input, nothing can depend on the order
        if _ho_sequence(M1) == _ho_sequence(M2):
            stats["identical_models"] += 1
            ob(res, f"{tag}: the model is built identically (same variables, constraints "
                    "and objective in the same sequence) under both iteration orders",
               "holds", time.time() - t0)
            continue
        st1, v1, x1 = _ho_optimize(M1)
        st2, v2, x2 = _ho_optimize(M2)
        stats["queries"] += 2
        if st1 != "sat" or st2 != "sat":
            ob(res, f"{tag}: optimum exists under both orders or under neither",
               "holds" if st1 == st2 and st1 == "unsat" else "unknown")
            continue
        # (a) the optimum under the reference order must be optimal under the other order
        st21, v21, _ = _ho_optimize(M2, fixed=x1)
        stats["queries"] += 1
        what = None
        if st21 != "sat" or float(v21) > float(v2) + 1e-9:
            if _ho_signature(x1) != _ho_signature(x2):
                what = "order"
        elif cfg["perm"] == 0:
            # (b) uniqueness: another assignment with the same objective that reports
            # something else is chosen by the solver's internal (variable) order
            st3, v3, x3 = _ho_optimize(M1, at_most=v1, differs=x1)
            stats["queries"] += 1
            if st3 == "sat" and _ho_signature(x3) != _ho_signature(x1):
                what = "tie"
        status = "holds"
        if what and what not in confirmed and stats["replays"] >= 8:
            status = "unknown"
        elif what and what not in confirmed:
            o["what"] = what
            okk, msg = replay(o)
            stats["replays"] += 1
            if okk:
                confirmed.add(what)
                status = "sat"
                res["violations"].append({"what": f"{tag}: {msg}", "key": "hash-order",
                                          "replay": o})
            else:
                # an injected order / an exact tie is an over-approximation of what hash
                # seeds do: a difference no real seed shows is not reported
                status = "unknown"
                res["inconclusive_notes"] = res.get("inconclusive_notes", []) + [msg]
        elif what:
            status = "sat"
        ob(res, f"{tag}: the optimum of the minor model does not depend on the iteration "
                "order of the variant set" + (" and is unique" if cfg["perm"] == 0 else ""),
           status, time.time() - t0)
    res["stats"] = {**dict(stats), "paths": stats["tables"], "solver_s": 0}
    res["obligations"] = [{"label": o_["label"], "status": o_["status"], "secs": 0}
                          for o_ in res["obligations"]]
    return res


_HO_CHILD = r"""
import sys, json, collections, warnings
warnings.filterwarnings("ignore")
import gengene, stagelib
from aldy.gene import Mutation
from aldy.profile import Profile
from aldy.solutions import CNSolution, MajorSolution, SolvedAllele
import aldy.minor as minor
o = json.loads(sys.argv[1])
import c14
print(json.dumps(c14._ho_real(o)))
"""


def _ho_sig(sols):
    out = []
    for s in sols:
        out.append([round(s.score, 3), sorted(
            [a.major, a.minor, sorted(map(str, a.added)), sorted(map(str, a.missing))]
            for a in s.solution)])
    return out


def _ho_inputs(o):
    gene = gengene.load(o["gene"], o["genome"])
    prof = Profile("r")
    counts = {}
    for k, v in o["counts"].items():
        pos, op = k.split("|", 1)
        if v > 0:
            counts[Mutation(int(pos), op)] = int(v)
    sites = {m.pos for m in counts}
    full = dict(counts)
    for p in sites:
        tot = HD * stagelib.position_cn(gene, o["cn"], p)
        alt = sum(c for m, c in counts.items() if m.pos == p and not stagelib.is_ins(m))
        if tot - alt > 0:
            full[Mutation(p, "_")] = tot - alt
    cov = stagelib.concrete_coverage(gene, prof, full)
    msol = MajorSolution(0, collections.Counter(
        {SolvedAllele(gene, a): c for a, c in o["major"].items()}),
        CNSolution(gene, 0, list(o["cn"])), _ho_added(gene, o.get("added")))
    return gene, cov, msol


def _ho_real(o, order=None):
    """the real estimate_minor with CBC on concrete reads (optionally with an injected
    iteration order)."""
    import aldy.minor as minor

    gene, cov, msol = _ho_inputs(o)
    saved = minor.__dict__.get("set")
    if order is not None:
        PermSet.order = {Mutation(int(p), op): i for i, (p, op) in enumerate(order)}
        minor.set = PermSet
    try:
        with contextlib.redirect_stdout(io.StringIO()):
            sols = minor.estimate_minor(gene, cov, [msol], "any")
        return _ho_sig(sols)
    except Exception as e:  # noqa
        return f"raised {type(e).__name__}: {e}"
    finally:
        if order is not None:
            if saved is None:
                minor.__dict__.pop("set", None)
            else:
                minor.set = saved


def replay_hashorder(o):
    import os
    import sys
    import json
    import subprocess

    a, b = _ho_real(o, o["pi1"]), _ho_real(o, o["pi2"])
    if a == b and o.get("what") != "tie":
        return False, "not reproduced with CBC under the two injected orders"
    procs = []
    for seed in range(HASH_SEEDS):
        env = dict(os.environ, PYTHONHASHSEED=str(seed))
        procs.append(subprocess.Popen([sys.executable, "-c", _HO_CHILD, json.dumps(o)],
                                      env=env, stdout=subprocess.PIPE,
                                      stderr=subprocess.DEVNULL, text=True))
    outs = {}
    for seed, p in enumerate(procs):
        out = p.communicate()[0].strip().split("\n")[-1]
        outs.setdefault(out, []).append(seed)
    if len(outs) > 1:
        return True, ("the same evidence is refined differently in fresh processes with "
                      "different hash seeds: " + "; ".join(
                          f"seeds {v[:6]} -> {k[:300]}" for k, v in outs.items())
                      + f" [reads {o['counts']}, major {o['major']}, added {o.get('added')}]")
    return False, (f"CBC results differ under the injected orders ({a} vs {b}) but hash "
                   f"seeds 0..{HASH_SEEDS - 1} all give the same result")


def replay_none(o):
    return True, "observed directly"


def replay(o):
    if o.get("kind") == "minor":
        import c04
        return c04.replay(o)
    if o["kind"] == "neutral":
        import c19
        return c19.replay_neutral(o)
    return globals()["replay_" + o["kind"]](o)
