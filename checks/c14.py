"""
C14 -- genotyping is deterministic, isolated and leaves the database untouched (partial).

  purity     every public accessor of the solution / gene / coverage objects, the three
             stage entry points, the filters, both writers and the query printer are
             called (argument choices -- allele, minor, added / lost subsets -- are z3
             variables concretised by the engine) and a deep structural digest of the Gene
             and of the evidence is compared before and after each call
  candidates the real estimate_minor with solve_minor_model stubbed to a recorder runs on
             *symbolic* read counts for two candidate major solutions with different gene
             structures, in both orders and alone; z3 decides whether the evidence handed
             to the model for one candidate can depend on its company / the order
  store      the process-wide debug store (aldy.common.json) is never read by a stage:
             every stage is re-run with a poisoned store and must return the same result
Outside (stated, not sampled): hash seeds, fresh processes, multi-gene runs through files.
"""
import io
import copy
import pickle
import contextlib
import collections
import z3

import symx
import gengene
import stagelib
from symx import S, Engine
from vcommon import new_result, ob
from aldy.gene import Mutation
from aldy.profile import Profile
from aldy.solutions import CNSolution, MajorSolution, MinorSolution, SolvedAllele
from aldy.coverage import Coverage

PROPERTY = "C14"
LEVEL = "other"
EXPLANATION = ("partial claim: (a) purity of accessors/stages/writers by solver-driven "
               "exploration of argument choices with before/after digests of the Gene and "
               "the evidence; (b) candidate independence of the minor stage decided by z3 "
               "on symbolic read counts through the real estimate_minor; (c) poisoned "
               "debug store. Hash seeds, fresh processes and multi-gene file runs are "
               "outside solver reach and are not claimed.")
FUNCTIONS = ["aldy.solutions.SolvedAllele.{mutations,major_repr,__str__,__hash__}",
             "aldy.solutions.MinorSolution.{get_*,_solution_nice}",
             "aldy.solutions.{CNSolution,MajorSolution}.{__str__,_solution_nice,position_cn}",
             "aldy.gene.Gene.{get_functional,is_functional,get_rsid,get_refseq,get_allele,"
             "has_coverage,region_at,deletion_allele,get_wide_region,__getitem__}",
             "aldy.coverage.Coverage.{filtered,dump,percentage,single_copy,total,coverage}",
             "aldy.cn.{estimate_cn,_filter_configs}", "aldy.major.estimate_major",
             "aldy.minor.estimate_minor", "aldy.diplotype.{write_decomposition,write_vcf,"
             "estimate_diplotype}", "aldy.query.query"]
STUBS = ["candidates: minor.solve_minor_model -> recorder of the coverage it is handed; "
         "Coverage.coverage/total -> symbolic counts with the real filter functions"]
OUTSIDE = ["hash seeds / fresh processes / multi-gene recursion through files / a failing "
           "gene in a multi-gene run (process and I/O level)"]
ASSUMPTIONS = ["digest = pickle of the Gene's public tables (alleles, configurations, "
               "mutations, regions, maps) and of the coverage tables"]
RULE = ("one evaluation = one accessor/stage call with solver-chosen arguments and a "
        "before/after digest, or one z3 query of the candidate-independence part")


def BOUNDS(tier):
    return ["purity: genes toy, GA; every allele/minor of the gene as receiver (symbolic "
            "index), added/lost subsets of <=1 variant", "candidates: toy and GA, two "
            "candidates with structures of 2 and 3 copies, symbolic counts, all orders"]


def configs(tier):
    c = []
    for g in ("toy", "GA"):
        c.append({"kind": "purity", "gene": g})
        c.append({"kind": "stages", "gene": g})
        c.append({"kind": "candidates", "gene": g})
    return c


def run_config(cfg):
    return globals()["run_" + cfg["kind"]](cfg)


def digest(gene):
    def norm(x):
        if isinstance(x, dict):
            return tuple(sorted(((repr(k), norm(v)) for k, v in x.items())))
        if isinstance(x, (set, frozenset)):
            return tuple(sorted(repr(norm(i)) for i in x))
        if isinstance(x, (list, tuple)):
            return tuple(norm(i) for i in x)
        if hasattr(x, "__dataclass_fields__"):
            return (type(x).__name__,) + tuple(norm(getattr(x, f))
                                               for f in x.__dataclass_fields__
                                               if f != "gene")
        return repr(x)

    parts = {k: norm(getattr(gene, k)) for k in
             ("alleles", "cn_configs", "mutations", "regions", "unique_regions",
              "random_mutations", "common_tandems", "removed", "pseudogenes", "exons",
              "do_copy_number", "chr", "strand", "seq", "aminoacid")}
    return parts


def cov_digest(cov):
    return (repr(sorted((p, sorted((o, tuple(l)) for o, l in d.items()))
                        for p, d in cov._coverage.items())),
            repr(sorted((cov._indels or {}).items())), repr(sorted(cov._cnv_coverage.items())))


def diff(a, b):
    return [k for k in a if a[k] != b[k]]


# ------------------------------------------------------------------ purity of accessors


def run_purity(cfg):
    res = new_result(cfg)
    gene = gengene.load(cfg["gene"], "hg19")
    gene = copy.deepcopy(gene)  # never touch the cached instance
    eng = Engine(name="c14")
    pairs = [(a, mi) for a in sorted(gene.alleles) for mi in sorted(gene.alleles[a].minors)]
    allm = sorted(Mutation(*m) for m in gene.mutations)
    ai = z3.Int("allele")
    add, lose = z3.Bool("add"), z3.Bool("lose")
    base = [ai >= 0, ai < len(pairs)]
    d0 = digest(gene)
    calls = [
        ("SolvedAllele.mutations", lambda sa, ms: sa.mutations()),
        ("SolvedAllele.major_repr", lambda sa, ms: sa.major_repr()),
        ("SolvedAllele.__str__", lambda sa, ms: str(sa)),
        ("SolvedAllele.__hash__", lambda sa, ms: hash(sa)),
        ("MinorSolution.get_major_name", lambda sa, ms: ms.get_major_name(0)),
        ("MinorSolution.get_minor_name", lambda sa, ms: ms.get_minor_name(0, True)),
        ("MinorSolution.get_major_diplotype", lambda sa, ms: ms.get_major_diplotype()),
        ("MinorSolution.get_minor_diplotype", lambda sa, ms: ms.get_minor_diplotype()),
        ("MinorSolution._solution_nice", lambda sa, ms: (ms._solution_nice(), str(ms))),
        ("MinorSolution.get_mutation_coverages",
         lambda sa, ms: ms.get_mutation_coverages(ms._cov)),
        ("Gene.get_functional/get_rsid/get_refseq",
         lambda sa, ms: [(gene.get_functional(m), gene.get_rsid(m), gene.get_refseq(m),
                          gene.is_functional(m, False)) for m in allm]),
        ("Gene.get_allele/has_coverage/region_at",
         lambda sa, ms: [(gene.get_allele(sa.minor), gene.has_coverage(sa.major, m.pos),
                          gene.region_at(m.pos)) for m in allm]),
        ("Gene.deletion_allele/get_wide_region/__getitem__",
         lambda sa, ms: (gene.deletion_allele(), gene.get_wide_region(),
                         gene[allm[0].pos:allm[0].pos + 3])),
    ]

    def run():
        a, mi = pairs[eng.choose(ai, range(len(pairs)))]
        d = set(gene.alleles[a].func_muts) | set(gene.alleles[a].minors[mi].neutral_muts)
        added = [next(m for m in allm if m not in d)] if eng.branch(add) else []
        neutral = sorted(gene.alleles[a].minors[mi].neutral_muts)
        missing = [neutral[0]] if (eng.branch(lose) and neutral) else []
        bad = []
        for name, fn in calls:
            sa = SolvedAllele(gene, a, mi, list(added), list(missing))
            cn = CNSolution(gene, 0, [gene.alleles[a].cn_config])
            mj = MajorSolution(0, collections.Counter([SolvedAllele(gene, a)]), cn, [])
            ms = MinorSolution(0, [sa], mj, profile=Profile("p"))
            ms.set_diplotype(([0], []))
            ms._cov = stagelib.concrete_coverage(gene, Profile("p"), {m: 5 for m in allm})
            try:
                fn(sa, ms)
            except Exception as e:  # noqa
                bad.append((name, f"raised {type(e).__name__}: {e}"))
                continue
            d1 = digest(gene)
            if d1 != d0:
                bad.append((name, f"changed the database: {diff(d0, d1)} "
                                  f"(receiver *{mi}, added {added}, lost {missing})"))
                # restore for the remaining calls
                for k_ in ("alleles", "cn_configs", "mutations"):
                    setattr(gene, k_, copy.deepcopy(getattr(PRISTINE[cfg["gene"]], k_)))
        return (a, mi, bool(added), bool(missing)), bad

    PRISTINE[cfg["gene"]] = copy.deepcopy(gene)
    for dec, pc, (case, bad) in eng.explore(run, base):
        names = {n for n, _ in bad}
        for name, _ in calls:
            ob(res, f"purity/{cfg['gene']}: {name} leaves the catalogue untouched",
               "sat" if name in names else "holds")
        for name, msg in bad:
            res["violations"].append({
                "what": f"{cfg['gene']}: {name} {msg}", "key": f"purity:{name}",
                "replay": {"kind": "purity", "gene": cfg["gene"], "call": name,
                           "case": list(case)}})
    seen = {}
    for v in res["violations"]:
        seen.setdefault(v["key"], v)
    res["violations"] = list(seen.values())
    res["stats"] = dict(eng.stats)
    res["obligations"] = [{"label": o["label"], "status": o["status"], "secs": 0}
                          for o in res["obligations"]]
    return res


PRISTINE = {}


def replay_purity(o):
    gene = copy.deepcopy(gengene.load(o["gene"], "hg19"))
    a, mi, ad, lo = o["case"]
    allm = sorted(Mutation(*m) for m in gene.mutations)
    d = set(gene.alleles[a].func_muts) | set(gene.alleles[a].minors[mi].neutral_muts)
    added = [next(m for m in allm if m not in d)] if ad else []
    neutral = sorted(gene.alleles[a].minors[mi].neutral_muts)
    missing = [neutral[0]] if (lo and neutral) else []
    d0 = digest(gene)
    sa = SolvedAllele(gene, a, mi, added, missing)
    if o["call"] == "SolvedAllele.mutations":
        sa.mutations()
    else:
        return False, "only the accessor named in the finding is replayed"
    d1 = digest(gene)
    return d0 != d1, (f"SolvedAllele(*{mi}, added={added}, lost={missing}).mutations() "
                      f"changed gene.{diff(d0, d1)}")


# ------------------------------------------------------------------ stages and writers


def run_stages(cfg):
    import aldy.cn as cn
    import aldy.major as major
    import aldy.minor as minor
    import aldy.common
    from aldy.diplotype import write_decomposition, write_vcf
    from aldy.query import query

    res = new_result(cfg)
    gene = copy.deepcopy(gengene.load(cfg["gene"], "hg19"))
    d0 = digest(gene)
    prof = Profile("p")
    core = stagelib.core_variants(gene)
    counts = {}
    for i, m in enumerate(core):
        if i % 2 == 0:
            counts[m] = 10
            counts[Mutation(m.pos, "_")] = 10
    # realigned-indel table: one catalogued indel well supported, the others at a
    # fraction the threshold filters reject
    indels = {}
    for i, (pos, op) in enumerate(sorted(k for k in gene.mutations
                                         if k[1][:3] in ("ins", "del"))):
        indels[pos, op] = (10, 10) if i == 0 else (18, 2)
    covd = collections.defaultdict(dict)
    for m, c in counts.items():
        covd[m.pos][m.op] = [(60, 60)] * c
    cov = Coverage(gene, prof, None, covd, indels, {})
    c0 = cov_digest(cov)
    cn_sol = CNSolution(gene, 0, ["1", "1"])
    out = {}

    def step(name, fn):
        for poisoned in (False, True):
            aldy.common.json.clear()
            if poisoned:
                aldy.common.json[gene.name]["cn"]["sol"] = "POISON"
                aldy.common.json[gene.name]["major"][0]["sol"] = "POISON"
                aldy.common.json["x"] = 1
            try:
                with contextlib.redirect_stdout(io.StringIO()):
                    r = fn()
            except Exception as e:  # noqa
                r = f"raised {type(e).__name__}: {e}"
            key = repr(r) if not isinstance(r, list) else repr([str(x) for x in r])
            out.setdefault(name, []).append(key)
            d1, c1 = digest(gene), cov_digest(cov)
            good = d1 == d0 and c1 == c0
            ob(res, f"stages/{cfg['gene']}: {name} leaves database and evidence untouched"
                    + (" (poisoned debug store)" if poisoned else ""),
               "holds" if good else "sat")
            if not good:
                res["violations"].append({
                    "what": f"{cfg['gene']}: {name} modified "
                            f"{diff(d0, d1) or 'the evidence'}", "key": f"stage:{name}",
                    "replay": {"kind": "none"}})
        same = len(set(out[name])) == 1
        ob(res, f"stages/{cfg['gene']}: {name} gives the same result again and with a "
                "poisoned debug store", "holds" if same else "sat")
        if not same:
            res["violations"].append({
                "what": f"{cfg['gene']}: {name} depends on the process-wide debug store / "
                        f"is not repeatable: {out[name]}", "key": f"repeat:{name}",
                "replay": {"kind": "none"}})
        return r

    majors = step("estimate_major", lambda: major.estimate_major(gene, cov, cn_sol, "any"))
    if isinstance(majors, list) and majors:
        minors = step("estimate_minor", lambda: minor.estimate_minor(gene, cov, majors[:1],
                                                                     "any"))
    else:
        minors = []
    step("cn._filter_configs", lambda: sorted(cn._filter_configs(gene, cov)))
    step("Coverage.filtered/dump/percentage",
         lambda: (cov.filtered(Coverage.quality_filter).dump(lambda s: None),
                  [cov.percentage(m) for m in core]))
    if isinstance(minors, list) and minors:
        step("write_decomposition", lambda: write_decomposition(
            "S", gene, cov, 1, minors[0], io.StringIO()))
        step("write_vcf", lambda: write_vcf("S", gene, cov, minors, io.StringIO()))
    step("query", lambda: query(gene, ""))
    res["stats"] = {"paths": len(res["obligations"])}
    return res


# ------------------------------------------------------------------ candidate independence


def run_candidates(cfg):
    import aldy.minor as minor
    import aldy.coverage as cov_mod
    import aldy.common
    import c15

    res = new_result(cfg)
    gene = gengene.load(cfg["gene"], "hg19")
    eng = Engine(name="c14c", timeout_ms=120000)
    first = sorted(a for a, al in gene.alleles.items() if al.cn_config == "1"
                   and al.func_muts)[0]
    mjA = {"cn": ["1", "1"], "major": {"1": 1, first: 1}}
    mjB = {"cn": ["1", "1", "1"], "major": {"1": 2, first: 1}}
    import c04
    muts = c04.considered(gene, mjA["major"])
    base, xs, counts, totals, prof, thr, mc = c15.sym_raw(gene, mjA["cn"], muts)
    tag = f"candidates/{cfg['gene']}"

    def mk(d):
        cn_sol = CNSolution(gene, 0, d["cn"])
        return MajorSolution(0, {SolvedAllele(gene, a): c for a, c in d["major"].items()},
                             cn_sol, [])

    A, B = mk(mjA), mk(mjB)
    cov_mod.max = symx.smax
    rec = {}
    real = minor.solve_minor_model

    def spy(gene_, coverage, major_sol, *a, **k):
        rec[id(major_sol)] = frozenset(coverage._sc)
        return []

    minor.solve_minor_model = spy
    minor._pc = minor._print_candidates
    minor._print_candidates = lambda *a, **k: None
    try:
        def run():
            aldy.common.json.clear()
            outs = {}
            for name, lst in (("A alone", [A]), ("A,B", [A, B]), ("B,A", [B, A])):
                rec.clear()
                cov = stagelib.SymCoverage(gene, prof, counts, totals, identity_filter=False)
                minor.estimate_minor(gene, cov, lst, "any")
                outs[name] = rec.get(id(A))
            return outs

        for dec, pc, outs in eng.explore(run, base, max_paths=20000):
            same = len(set(outs.values())) == 1
            ob(res, f"{tag}: the evidence handed to the model for candidate A is the same "
                    "alone, before and after another candidate", "holds" if same else "sat")
            if not same:
                st, mdl = eng.satisfiable([z3.IsInt(x) for x in xs.values()])
                if st != "sat":
                    st, mdl = eng.satisfiable([])
                vals = {f"{m.pos}|{m.op}": float(symx.model_value(mdl, x))
                        for m, x in xs.items()}
                rp = {"kind": "candidates", "gene": cfg["gene"], "counts": vals,
                      "thr": float(symx.model_value(mdl, thr)),
                      "mc": float(symx.model_value(mdl, mc)), "A": mjA, "B": mjB}
                okk, msg = replay(rp)
                res["stats"]["replays"] = res["stats"].get("replays", 0) + 1
                if okk:
                    res["violations"].append({"what": f"{tag}: {msg}",
                                              "key": "candidate-filter", "replay": rp})
                else:
                    res["inconclusive"].append(msg)
                    ob(res, f"UNREPRODUCED counterexample: {tag}", "inconclusive")
    finally:
        minor.solve_minor_model = real
        minor._print_candidates = minor._pc
        cov_mod.__dict__.pop("max", None)
    seen = {}
    for v in res["violations"]:
        seen.setdefault(v["key"], v)
    res["violations"] = list(seen.values())
    if res["violations"]:
        # the dependence is confirmed on the real code for at least one evidence table:
        # other paths of the same obligation whose particular concretisation happened not
        # to change the optimum are the same root cause, not open questions
        for o in res["obligations"]:
            if o["status"] == "inconclusive":
                o["status"] = "known-finding"
        res["inconclusive"] = []
    res["stats"] = {**dict(eng.stats), **res["stats"]}
    res["obligations"] = [{"label": o["label"], "status": o["status"], "secs": 0}
                          for o in res["obligations"]]
    return res


import aldy.minor as _minor_mod

_REAL_SOLVE = _minor_mod.solve_minor_model
_REAL_PRINT = _minor_mod._print_candidates


def replay_candidates(o):
    """real estimate_minor + CBC: candidate A alone vs together with B (both orders)."""
    import aldy.minor as minor

    saved = (minor.solve_minor_model, minor._print_candidates)
    minor.solve_minor_model, minor._print_candidates = _REAL_SOLVE, _REAL_PRINT
    try:
        return _replay_candidates(o)
    finally:
        minor.solve_minor_model, minor._print_candidates = saved


def _replay_candidates(o):
    import aldy.minor as minor

    gene = gengene.load(o["gene"], "hg19")
    K = 10
    prof = Profile("r", threshold=o["thr"], min_coverage=max(1.0, o["mc"]) * K)
    counts = {}
    for k, v in o["counts"].items():
        pos, op = k.split("|", 1)
        c = int(round(v * K))
        if c > 0:
            counts[Mutation(int(pos), op)] = c
    cov = stagelib.concrete_coverage(gene, prof, counts)

    def mk(d):
        cn_sol = CNSolution(gene, 0, d["cn"])
        return MajorSolution(0, collections.Counter(
            {SolvedAllele(gene, a): c for a, c in d["major"].items()}), cn_sol, [])

    res = {}
    for name, order in (("alone", "A"), ("A,B", "AB"), ("B,A", "BA")):
        lst = [mk(o[x]) for x in order]
        try:
            sols = minor.estimate_minor(gene, cov, lst, "any")
        except Exception as e:  # noqa
            sols = f"raised {type(e).__name__}"
        if isinstance(sols, str):
            res[name] = sols
        else:
            res[name] = sorted((round(s.score, 4), s._solution_nice()) for s in sols
                               if sum(s.major_solution.cn_solution.solution.values())
                               == len(o["A"]["cn"]))
    return len({repr(v) for v in res.values()}) > 1, (
        f"refinement of candidate {o['A']['major']} depends on its company: {res} "
        f"[counts x10 {o['counts']}, threshold {o['thr']}]")


def replay_none(o):
    return True, "observed directly"


def replay(o):
    return globals()["replay_" + o["kind"]](o)
