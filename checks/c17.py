"""
C17 -- a debug dump replays to the same result (partial).

The real Sample.__init__ reads an in-memory alignment file (reads with symbolic start /
CIGAR / bases, concretised path by path as in C06), writes the debug dump through the real
_dump_alignments (real gzip + pickle into a scratch directory), and a second Sample is
constructed from that dump through the real _load_dump; the two samples must be
observationally equal for everything the stages consume: per-position observation
multisets, indel support table, fusion counter, neutral-region depth, normalised region
depths, multi-site phase records, sample name, and the profile parameters after the dump
route's parameter re-application (genotype.py:185-190).  With C14 (stages are functions of
exactly these objects) this gives equal solutions.
Outside: the tar archive layer and the .genome marker through __main__ (os.system).
"""
import os
import shutil
import tempfile
import collections
import z3

import symx
import gengene
import c06
from symx import Engine
from vcommon import new_result, ob
from aldy.profile import Profile
from aldy.common import GRange

PROPERTY = "C17"
LEVEL = "exploration"
FUNCTIONS = ["aldy.sam.Sample.__init__", "aldy.sam.Sample._load_sam",
             "aldy.sam.Sample._load_cn_region", "aldy.sam.Sample._dump_alignments",
             "aldy.sam.Sample._load_dump", "aldy.sam.Sample._make_coverage",
             "aldy.coverage.Coverage._normalize_coverage",
             "aldy.profile.Profile.update (dump route)"]
STUBS = ["pysam.AlignmentFile -> in-memory reads; sam.detect_genome -> 'sam' / 'dump'; "
         "Sample._realign_indels -> fills the indel table from a symbolic choice; real "
         "gzip/pickle files in a scratch directory"]
OUTSIDE = ["archive creation (tar via os.system), the .genome marker, real BAMs; "
           "equality of the solutions themselves is the composition with C14/C02-C04"]
ASSUMPTIONS = ["every path ends concrete: exhaustive within the bounds, not beyond"]
RULE = ("cases = (two reads with symbolic start/CIGAR/bases x indel support x parameter "
        "set), enumerated by the solver; non-trivial = at least one variant observation; "
        "distinct = distinct case")
PARAMS = [{}, {"min_avg_coverage": 5.0, "display_format": True},
          {"gap": 0.1, "debug_novel": True, "max_minor_solutions": 2}]


def BOUNDS(tier):
    return ["gene GA (hg19, hg38); 2 reads (each x3), CIGAR of 1-2 operations over "
            "{M,=,X,I,D,S} sizes 1-2 for the first read (bases: reference, and {reference, "
            "MNP alternative, other} at the MNP's sites), second read a fixed match run; indel "
            "support {none, (2,3)}; 3 parameter sets"]


def configs(tier):
    c = [{"kind": "route", "min": 1.0}, {"kind": "route", "min": 5.0},
         {"kind": "route", "min": 2.0},
         {"kind": "route", "min": 5.0, "user": True},
         {"kind": "route", "min": 1.0, "user": True},
         # exome-type profile names switch copy-number calling off: also on the dump route
         {"kind": "route", "min": 1.0, "profile": "wes"},
         {"kind": "route", "min": 2.0, "profile": "exome"}]
    for b in ("hg19", "hg38"):
        for first in range(len(c06.OPS)):
            c.append({"genome": b, "first": first, "nops": 2, "maxsz": 2, "starts": 2,
                      "refonly": True})
            if first == 0 or (tier == "thorough" and first < 3):
                # reads crossing the first / last genome position RefSeq maps to, showing
                # non-reference bases there
                for anchor in ("lo", "hi"):
                    c.append({"genome": b, "first": first, "nops": 2, "maxsz": 2,
                              "starts": 3, "anchor": anchor})
            if tier == "thorough":
                # reads that show non-reference bases, more start positions
                c.append({"genome": b, "first": first, "nops": 2, "maxsz": 2, "starts": 4})
    return c


def obs_multiset(cov):
    return {(p, o): collections.Counter(l) for p, d in cov._coverage.items()
            for o, l in d.items() if l}


def make_pair(gene, reads, indel, params, tmp, gap=False):
    import aldy.sam as sam_mod

    lo = min(gene.chr_to_ref)
    # gap: the neutral region starts two positions before the first read (positions
    # without any read inside the neutral region)
    region = GRange(gene.chr, reads[0][0] - (4 if gap else 1), reads[0][0] + 3)
    data = {gene.name: {r: [10.0] * len(gene.regions) for r in gene.regions[0]}}
    prof = Profile("p", region, data, neutral_value=12.0, **params)
    fr = []
    for i, (start, cigar, seq) in enumerate(reads):
        end = start + sum(s for o, s in cigar if o in (0, 7, 8, 2))
        for k in range(3):
            fr.append(c06.FakeRead(
                cigartuples=[tuple(c) for c in cigar], cigarstring="x",
                is_supplementary=False, query_sequence=seq,
                # names run against the order of the file (name order != parse order)
                query_name=f"frag{len(reads) - i:03d}",
                reference_id=0, reference_name=gene.chr, reference_start=start,
                reference_end=end, mapping_quality=50, query_qualities=[30] * len(seq)))
    # long anchor reads so that the neutral region has depth >= 2
    anchor = reads[0][0] - 2
    for k in range(3):
        fr.append(c06.FakeRead(
            cigartuples=[(0, 8)], cigarstring="8M", is_supplementary=False,
            query_sequence=gene[anchor:anchor + 8].replace("N", "A"), query_name="anchor",
            reference_id=0, reference_name=gene.chr, reference_start=anchor,
            reference_end=anchor + 8, mapping_quality=50, query_qualities=[30] * 8))

    def realign(self, tmp_, sam, reference, long_reads=False):
        if indel:
            k = sorted(self._indel_sites)[0]
            self._indel_sites[k] = [2, 3]

    saved = (sam_mod.detect_genome, sam_mod.pysam.AlignmentFile,
             sam_mod.Sample._realign_indels)
    sam_mod.pysam.AlignmentFile = lambda *a, **k: c06.FakeSam(fr, (gene.chr,))
    sam_mod.Sample._realign_indels = realign
    prefix = os.path.join(tmp, "dbg")
    try:
        sam_mod.detect_genome = lambda p: ("sam", "hg19")
        s1 = sam_mod.Sample(gene, prof, os.path.join(tmp, "NAME.bam"), debug=prefix)
        sam_mod.detect_genome = lambda p: ("dump", gene.genome)
        s2 = sam_mod.Sample(gene, None, f"{prefix}.{gene.name}.dump")
        s2.profile.update(params)  # genotype.py:189-190
    finally:
        sam_mod.detect_genome, sam_mod.pysam.AlignmentFile, \
            sam_mod.Sample._realign_indels = saved
    return s1, s2


def compare(gene, s1, s2):
    probs = []
    if s1.name != s2.name:
        probs.append(("name", f"sample name {s1.name!r} vs {s2.name!r}"))
    if obs_multiset(s1.coverage) != obs_multiset(s2.coverage):
        a, b = obs_multiset(s1.coverage), obs_multiset(s2.coverage)
        d = [k for k in set(a) | set(b) if a.get(k) != b.get(k)]
        probs.append(("observations", f"observation tables differ at {sorted(d)[:4]}"))
    if (s1.coverage._indels or {}) != (s2.coverage._indels or {}):
        probs.append(("indels", f"indel support {s1.coverage._indels} vs "
                                f"{s2.coverage._indels}"))
    if dict(s1._indel_sites) != dict(s2._indel_sites):
        probs.append(("indel-sites", "indel site table differs"))
    if dict(s1._fusion_counter) != dict(s2._fusion_counter):
        probs.append(("fusion", "fusion counter differs"))
    if dict(s1.coverage._cnv_coverage) != dict(s2.coverage._cnv_coverage):
        probs.append(("neutral", f"neutral depth {dict(s1.coverage._cnv_coverage)} vs "
                                 f"{dict(s2.coverage._cnv_coverage)}"))
    if s1.coverage._region_coverage != s2.coverage._region_coverage:
        probs.append(("regions", "normalised region depths differ"))
    p1 = collections.Counter(tuple(sorted(v.items())) for v in s1.phases.values()
                             if len(v) > 1)
    p2 = collections.Counter(tuple(sorted(v.items())) for v in s2.phases.values()
                             if len(v) > 1)
    if p1 != p2:
        probs.append(("phases", f"multi-site phase records {dict(p1)} vs {dict(p2)}"))
    # the minor stage reads the phase table in iteration order (and down-samples it by
    # position), so the order of the records is part of what a replay must reproduce
    o1 = [tuple(sorted(v.items())) for v in s1.phases.values() if len(v) > 1]
    o2 = [tuple(sorted(v.items())) for v in s2.phases.values() if len(v) > 1]
    if p1 == p2 and o1 != o2:
        probs.append(("phase-order", f"multi-site phase records come in another order: "
                                     f"{o1[:4]} vs {o2[:4]}"))
    d1, d2 = dict(s1.profile.__dict__), dict(s2.profile.__dict__)
    for k in ("data",):
        d1.pop(k, None)
        d2.pop(k, None)
    # the dump route resets three debug switches and min_avg_coverage before the
    # parameters are applied again; everything the user set must be back
    bad = [k for k in d1 if d1[k] != d2.get(k)]
    if bad:
        probs.append(("profile", f"profile parameters differ after the dump route: "
                                 f"{[(k, d1[k], d2.get(k)) for k in bad]}"))
    return probs


def run_route(cfg):
    """
    The dump route of the real genotype(): the parameters given to the run must be back
    in force before anything depends on them. With a symbolic average depth the accept /
    reject decision of a run from the dump equals the decision of the original run with
    the same min_avg_coverage (the dump reader resets that parameter to 2.0).
    """
    import genoharness
    from symx import S
    from aldy.common import AldyException

    res = new_result(cfg)
    eng = Engine(name="c17r")
    avg = z3.Real("avg")
    base = [avg >= 0, avg <= 100]
    plan = {"cn": [["1", "1"]], "major": {0: [{"1": 2}]}, "minor": {(0, 0): 1}}
    state = {}

    extra = {"display_format": True, "debug_novel": True, "max_minor_solutions": 2}
    kw = {"cn_solution": ["1", "1"], "profile_name": None} if cfg.get("user") else {}
    if cfg.get("profile"):
        kw = {"profile_name": cfg["profile"]}

    def run():
        out = {}
        for kind in ("sam", "dump"):
            h = genoharness.Harness(plan, lambda k, i: 1.0, avg_cov=S(avg), kind=kind)
            try:
                h.run(params={"min_avg_coverage": cfg["min"], **extra}, **kw)
                out[kind] = "ok"
            except AldyException:
                out[kind] = "reject"
            out[kind + "_params"] = h.seen_profile
        return out

    for dec, pc, out in eng.explore(run, base):
        good = out["sam"] == out["dump"] and out["sam_params"] == out["dump_params"]
        st, mdl = eng.prove([], z3.BoolVal(good))
        want = "reject" if eng.prove([], avg < cfg["min"])[0] == "unsat" else "ok"
        ob(res, f"route/min_avg_coverage={cfg['min']}{'/user' if cfg.get('user') else ''}"
                f"{'/' + cfg['profile'] if cfg.get('profile') else ''}: "
                "a run from the dump accepts/rejects like the original run and the stages "
                "see the same parameters",
           "holds" if good and out["dump"] == want else "sat")
        if not (good and out["dump"] == want):
            st, mdl = eng.satisfiable([])
            av = float(symx.model_value(mdl, avg)) if mdl is not None else 3.0
            dp = out.get("dump_params") or {}
            sp = out.get("sam_params") or {}
            diffp = {k: (sp.get(k), dp.get(k)) for k in set(sp) | set(dp)
                     if sp.get(k) != dp.get(k)}
            res["violations"].append({
                "what": f"average depth {av}, min_avg_coverage={cfg['min']}"
                        f"{' (user-supplied structure)' if cfg.get('user') else ''}: "
                        f"original run {out['sam']}, run from its dump {out['dump']}; "
                        f"parameters in force at the stages differ: {diffp}",
                "key": "dump-route",
                "replay": {"kind": "route", "avg": av, "min": cfg["min"],
                           "user": bool(cfg.get("user")), "profile": cfg.get("profile")}})
    seen = {}
    for v in res["violations"]:
        seen.setdefault(v["key"], v)
    res["violations"] = list(seen.values())
    res["stats"] = dict(eng.stats)
    return res


def replay_route(o):
    import genoharness
    from aldy.common import AldyException

    plan = {"cn": [["1", "1"]], "major": {0: [{"1": 2}]}, "minor": {(0, 0): 1}}
    out = {}
    extra = {"display_format": True, "debug_novel": True, "max_minor_solutions": 2}
    kw = {"cn_solution": ["1", "1"], "profile_name": None} if o.get("user") else {}
    if o.get("profile"):
        kw = {"profile_name": o["profile"]}
    for kind in ("sam", "dump"):
        h = genoharness.Harness(plan, lambda k, i: 1.0, avg_cov=o["avg"], kind=kind)
        try:
            h.run(params={"min_avg_coverage": o["min"], **extra}, **kw)
            out[kind] = ("ok", h.seen_profile)
        except AldyException:
            out[kind] = ("reject", h.seen_profile)
    return out["sam"] != out["dump"], f"depth {o['avg']} min {o['min']}: {out}"


def run_config(cfg):
    if cfg.get("kind") == "route":
        return run_route(cfg)
    res = new_result(cfg)
    gene = gengene.load("GA", cfg["genome"])
    eng = Engine(name="c17")
    V1, V2 = c06.read_vars(2, "r1"), c06.read_vars(2, "r2")
    ind, par = z3.Bool("indel"), z3.Int("params")
    ngap = z3.Bool("neutral_region_has_uncovered_positions")
    base = c06.read_base(V1, 2) + c06.read_base(V2, 2) + [V1["op"][0] == cfg["first"],
                                                         par >= 0, par < len(PARAMS)]
    # second read: a single concrete match run (bounds the space)
    base += [V2["op"][0] == 0, V2["op"][1] == 0, V2["sz"][0] == 2, V2["sz"][1] == 1,
             V2["start"] == V1["start"]] + [b == 0 for b in V2["b"]]
    tmp = tempfile.mkdtemp(prefix="c17_")
    tag = f"GA/{cfg['genome']}/first={c06.NAMES[c06.OPS[cfg['first']]]}" + (
        f"/edge-{cfg['anchor']}" if cfg.get("anchor") else "")

    def run():
        sample = c06.new_sample(gene)
        r1 = c06.choose_read(eng, gene, sample, cfg, V1)
        r2 = c06.choose_read(eng, gene, sample, cfg, V2)
        indel = eng.branch(ind)
        gap = eng.branch(ngap)
        params = PARAMS[eng.choose(par, range(len(PARAMS)))]
        try:
            s1, s2 = make_pair(gene, [r1, r2], indel, params, tmp, gap)
        except Exception as e:  # noqa
            return (r1, r2, indel, params, gap), [("exception", f"{type(e).__name__}: {e}")]
        return (r1, r2, indel, params, gap), compare(gene, s1, s2)

    n = 0
    try:
        for dec, pc, (case, probs) in eng.explore(run, base, max_paths=200000):
            n += 1
            ob(res, f"{tag}: sample rebuilt from its dump is observationally equal",
               "holds" if not probs else "sat")
            for key, msg in probs:
                res["violations"].append({
                    "what": f"GA/{cfg['genome']} reads {case[0]}, {case[1]} indel={case[2]} "
                            f"params={case[3]} neutral-gap={case[4]}: {msg}",
                    "key": f"dump-{key}",
                    "replay": {"genome": cfg["genome"], "r1": case[0], "r2": case[1],
                               "indel": case[2], "params": case[3], "gap": case[4]}})
            if len(res["samples"]) < 2:
                res["samples"].append({"reads": [case[0], case[1]], "params": case[3]})
    finally:
        shutil.rmtree(tmp, ignore_errors=True)
    seen = {}
    for v in res["violations"]:
        seen.setdefault(v["key"], v)
    res["violations"] = list(seen.values())
    res["stats"] = dict(eng.stats)
    res["stats"]["distinct_cases"] = n
    res["obligations"] = [{"label": o["label"], "status": o["status"], "secs": 0}
                          for o in res["obligations"]]
    return res


def replay(o):
    if o.get("kind") == "route":
        return replay_route(o)
    gene = gengene.load("GA", o["genome"])
    tmp = tempfile.mkdtemp(prefix="c17_")
    try:
        r1 = (o["r1"][0], [tuple(c) for c in o["r1"][1]], o["r1"][2])
        r2 = (o["r2"][0], [tuple(c) for c in o["r2"][1]], o["r2"][2])
        try:
            s1, s2 = make_pair(gene, [r1, r2], o["indel"], o["params"], tmp,
                               o.get("gap", False))
        except Exception as e:  # noqa
            return True, f"{type(e).__name__}: {e}"
        probs = compare(gene, s1, s2)
    finally:
        shutil.rmtree(tmp, ignore_errors=True)
    return bool(probs), "; ".join(p[1] for p in probs[:3])
