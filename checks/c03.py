"""
C03 -- gene-structure (copy number) calls are well-formed and optimal.

The real solve_cn_model runs on symbolic region depths with the z3-capturing backend.
The non-linear scaling 1/(max(c0,c1)+1) is abstracted: per region a fresh real inv_r in
(0,1] and a fresh real q_r standing for (c0-c1)*inv_r; the specification is written over
the same symbols, so every lemma below is an identity in (inv_r, q_r) and holds for the
exact values in particular (over-approximation; counterexamples are concretised and
replayed on the real code with CBC).

Obligations per configuration (gene, build, max_cn, fusion support):
  vars    structure variables = two complete slots per kept configuration, max_cn-1
          pseudogene-free extra slots of the default configuration only, max_cn free
          pseudogene slots iff the gene has a pseudogene and a deletion allele
  wf      every feasible point: exactly two complete haplotypes; a double deletion
          excludes everything else; ordered slots; extra slots well ordered
  obj-lb / obj-wit  objective = cn_diff/|R| * sum w_r |depth residual_r| +
          cn_fit/|R| * sum |gene residual_r| + cn_parsimony * 7.5/|R| * sum (1 + fusion
          penalty) over the used slots
  adm     every admissible explanation (two haplotypes, k extra copies, j pseudogene
          copies; symbolic) has a feasible point
  filter  (symbolic long-read support values) weak fusions are dropped, "1", the
          deletion allele and supported fusions are kept
  wrapper estimate_cn: user structure verbatim / unknown names rejected / two default
          copies (one for a male X/Y gene) / max copy number and low-depth guard
"""

import time
import itertools
import collections
import z3

import symx
import gengene
import stagelib
from symx import S, SB, Engine
from vcommon import new_result, ob
from aldy.profile import Profile
from aldy.gene import CNConfigType
from aldy.common import AldyException

PROPERTY = "C03"
LEVEL = "model_checking"
FUNCTIONS = [
    "aldy.cn.solve_cn_model", "aldy.cn.estimate_cn", "aldy.cn._parse_user_solution",
    "aldy.solutions.CNSolution.__init__", "aldy.lpinterface.Gurobi.{abssum,solutions}",
    "aldy.gene.Gene.deletion_allele",
]
STUBS = [
    "lpinterface.model -> z3-capturing backend",
    "aldy.cn.max -> If-term max whose '+1' carries the abstraction of 1/scale",
    "wrapper: solve_cn_model / _filter_configs / _print_coverage stubbed to recorders; "
    "Coverage.region_coverage returns symbolic depths; aldy.cn.ceil/max/sum shadowed",
]
OUTSIDE = [
    "CBC (C05); region depth computation (C07); _filter_configs (C15)",
    "residuals beyond cn_max=20 (error variables are bounded): depths limited to [0,8]",
    "folding of internal assignments cn.py:268-289 and superset-completeness are covered "
    "by replays (enumeration judge) and by the C05 tee on the repo's tables",
]
ASSUMPTIONS = [
    "abstraction: inv_r in (0,1], q_r in [-8,8] free (over-approximates (c0-c1)/(max+1))",
]


def BOUNDS(tier):
    return [
        "region depths c0_r, c1_r real in [0,8] per copy-number region (symbolic)",
        "genes: toy, GA, GC (both builds)" + (", CYP2D6, CYP2A6, GSTM1" if tier ==
                                               "thorough" else ", CYP2D6 (hg19)"),
        "max_cn in " + ("{3,4,5,6}" if tier == "thorough" else "{3,4}"),
        "fusion support: none, and symbolic support value per fusion (all subsets kept/"
        "dropped)",
        "wrapper: user lists of <=3 names from the gene's configurations plus an unknown "
        "name; male flag symbolic; chr in {X, Y, 1}",
    ]


def configs(tier):
    c = []
    small = [("toy", "hg19"), ("toy", "hg38"), ("GA", "hg19"), ("GA", "hg38"),
             ("GC", "hg19"), ("GC", "hg38")]
    mcs = (3, 4, 5, 6) if tier == "thorough" else (3, 4)
    for g, b in small:
        for mc in mcs:
            c.append({"kind": "model", "gene": g, "genome": b, "max_cn": mc, "fs": None})
        c.append({"kind": "model", "gene": g, "genome": b, "max_cn": 3, "fs": "sym"})
    big = [("cyp2d6", "hg19")]
    if tier == "thorough":
        big += [("cyp2d6", "hg38"), ("cyp2a6", "hg19"), ("gstm1", "hg19")]
    for g, b in big:
        for mc in ((3, 5) if tier == "thorough" else (3,)):
            c.append({"kind": "model", "gene": g, "genome": b, "max_cn": mc, "fs": None})
    for g in ("toy", "GA", "GB", "GC"):
        c.append({"kind": "wrapper", "gene": g, "genome": "hg19"})
    # the clauses "first reported is optimal / all reported lie within the gap / complete"
    # rest on the solution enumerator: its contract on an uninterpreted model family
    # (shared with C05)
    for gap in ("0", "0.1", "sym"):
        c.append({"kind": "enum", "n": 2, "gap": gap, "limit": None})
    return c


def run_config(cfg):
    if cfg["kind"] == "enum":
        import c05
        return c05.run_enum(cfg)
    return globals()["run_" + cfg["kind"]](cfg)


# ------------------------------------------------------------------ abstraction


class ScaleS(S):
    """max(c0,c1)+1 with an abstract reciprocal."""

    __slots__ = ("inv", "prods", "rid")

    def __init__(self, t, rid):
        S.__init__(self, t)
        self.rid = rid
        self.inv = z3.Real(f"inv!{rid}")
        self.prods = {}

    def div(self, a):
        if isinstance(a, S):
            key = str(a.t)
            if key not in self.prods:
                self.prods[key] = (z3.Real(f"q!{self.rid}!{len(self.prods)}"), a.t)
            return S(self.prods[key][0])
        return S(symx.q(a) * self.inv)


class MaxS(S):
    __slots__ = ("reg",)

    def __add__(self, o):
        if o == 1 and not isinstance(o, S):
            sc = ScaleS(self.t + 1, MaxS.counter[0])
            MaxS.counter[0] += 1
            MaxS.scales.append(sc)
            return sc
        return S.__add__(self, o)


MaxS.counter = [0]
MaxS.scales = []


def cn_max(*a, **kw):
    r = symx.smax(*a, **kw)
    if isinstance(r, S):
        m = MaxS(r.t)
        return m
    return r


_orig_truediv = S.__truediv__


def _s_truediv(self, o):
    if isinstance(o, ScaleS):
        return o.div(self)
    return _orig_truediv(self, o)


_orig_num_div = symx._num_div


def _num_div(a, b):
    if isinstance(b, ScaleS):
        return b.div(a)
    return _orig_num_div(a, b)


def install_abstraction():
    S.__truediv__ = _s_truediv
    symx._num_div = _num_div
    MaxS.counter[0] = 0
    MaxS.scales = []


# ------------------------------------------------------------------ spec


def spec_slots(gene, cn_configs, max_cn, kept):
    """names of the structure variables the spec expects."""
    dele = gene.deletion_allele()
    slots = []
    for a in kept:
        slots += [(a, 0), (a, -1)]
        if cn_configs[a].kind == CNConfigType.DEFAULT:
            slots += [(a, i) for i in range(1, max_cn)]
    if len(gene.regions) > 1 and dele:
        slots += [("PSEUDO", i + 1) for i in range(max_cn)]
    return slots


def slot_cn(gene, cn_configs, slot):
    """(gene cn, pseudogene cn) per region contributed by one used slot."""
    a, i = slot
    dele = gene.deletion_allele()
    if a == "PSEUDO":
        c = cn_configs[dele].cn
        return c[0], (c[1] if len(c) > 1 else {})
    c = cn_configs[a].cn
    g0 = c[0]
    g1 = c[1] if len(c) > 1 else {}
    if i > 0:
        g1 = {r: v - 1 for r, v in g1.items()}
    return g0, g1


def slot_penalty(gene, profile, slot):
    nR = len(gene.unique_regions)
    base = 0.75 * 10.0 / nR
    a = slot[0]
    extra = 0.0
    if a in gene.cn_configs:
        k = gene.cn_configs[a].kind
        if k == CNConfigType.RIGHT_FUSION:
            extra = profile.cn_fusion_right
        elif k == CNConfigType.LEFT_FUSION:
            extra = profile.cn_fusion_left
    return profile.cn_parsimony * base * (1 + extra)


def residuals(gene, cn_configs, slots, used, ev):
    """used: slot -> z3 Bool; ev: r -> dict(c0, inv, q).
    returns [(r, depth residual (scaled), gene residual)].  Products with inv_r are pushed
    inside the If so that everything stays linear."""
    out = []
    for r in gene.unique_regions:
        G = []
        X = []
        for s in slots:
            g0, g1 = slot_cn(gene, cn_configs, s)
            a0 = g0.get(r, 0)
            a1 = g1.get(r, 0)
            if a0:
                G.append(z3.If(used[s], z3.RealVal(a0), z3.RealVal(0)))
            if a0 - a1:
                X.append(z3.If(used[s], (a0 - a1) * ev[r]["inv"], z3.RealVal(0)))
        Gs = z3.Sum(G) if G else z3.RealVal(0)
        Xs = z3.Sum(X) if X else z3.RealVal(0)
        out.append((r, ev[r]["q"] - Xs, ev[r]["c0"] - Gs))
    return out


def zabs(t):
    return z3.If(t >= 0, t, -t)


def spec_objective(gene, profile, cn_configs, slots, used, ev):
    nR = len(gene.unique_regions)
    res = residuals(gene, cn_configs, slots, used, ev)
    diff = z3.Sum([symx.q(profile.cn_pce_penalty if r == "pce" else 1.0) * zabs(d)
                   for r, d, _ in res])
    fit = z3.Sum([zabs(g) for _, _, g in res])
    pars = z3.Sum([z3.If(used[s], symx.q(slot_penalty(gene, profile, s)), z3.RealVal(0))
                   for s in slots])
    return (symx.q(profile.cn_diff / nR) * diff + symx.q(profile.cn_fit / nR) * fit
            + pars), res


# ------------------------------------------------------------------ model check


def run_model(cfg):
    import aldy.cn as cn
    import aldy.common

    res = new_result(cfg)
    gene = gengene.load(cfg["gene"], cfg["genome"])
    profile = Profile("verif")
    max_cn = cfg["max_cn"]
    eng = Engine(name="c03", timeout_ms=180000)
    has_pseudo = len(gene.regions) > 1
    c0 = {r: z3.Real(f"c0_{r}") for r in gene.unique_regions}
    c1 = {r: z3.Real(f"c1_{r}") for r in gene.unique_regions}
    base = []
    region_cov = {}
    for r in gene.unique_regions:
        base += [c0[r] >= 0, c0[r] <= 8]
        if has_pseudo:
            base += [c1[r] >= 0, c1[r] <= 8]
            region_cov[r] = (S(c0[r]), S(c1[r]))
        else:
            region_cov[r] = (S(c0[r]), 0.0)
    fusions = [a for a, c in gene.cn_configs.items()
               if c.kind in (CNConfigType.LEFT_FUSION, CNConfigType.RIGHT_FUSION)]
    fs = None
    fsv = {}
    if cfg["fs"] == "sym":
        fsv = {a: z3.Real(f"fs_{a}") for a in fusions}
        base += [z3.And(v >= 0, v <= 1) for v in fsv.values()]
        fs = {a: S(v) for a, v in fsv.items()}
        if not fs:
            fs = None
    saved = {k: cn.__dict__.get(k) for k in ("max",)}
    cn.max = cn_max
    saved_div = (S.__truediv__, symx._num_div)
    install_abstraction()
    tag = f"{cfg['gene']}/{cfg['genome']}/max_cn={max_cn}/fs={cfg['fs']}"

    def run():
        aldy.common.json.clear()
        MaxS.counter[0] = 0
        MaxS.scales = []
        with symx.install() as inst:
            cn.solve_cn_model(gene, profile, gene.cn_configs, max_cn, region_cov, "z3",
                              None, fs)
            return inst.models[-1], list(MaxS.scales)

    try:
        for dec, pc, (m, scales) in eng.explore(run, base, max_paths=256):
            check_model(eng, res, cfg, tag, gene, profile, max_cn, m, scales, c0, c1,
                        fsv, has_pseudo)
    finally:
        for k, v in saved.items():
            if v is None:
                cn.__dict__.pop(k, None)
            else:
                cn.__dict__[k] = v
        S.__truediv__, symx._num_div = saved_div
    res["stats"] = {**dict(eng.stats), **res["stats"]}
    return res


def check_model(eng, res, cfg, tag, gene, profile, max_cn, m, scales, c0, c1, fsv,
                has_pseudo):
    dele = gene.deletion_allele()
    cons = m.z3_constraints()
    # which fusions does the spec keep on this path?  (if the code forked on another
    # predicate than the spec's threshold, the path splits into sub-cases here)
    thr = symx.q(1.0 / (2 * max_cn))
    undecided = []
    kept0 = []
    for a, c in gene.cn_configs.items():
        if not fsv or a == "1" or (dele and a == dele):
            kept0.append(a)
        elif a in fsv:
            st, _ = eng.prove([], fsv[a] >= thr)
            if st == "unsat":
                kept0.append(a)
            else:
                st2, _ = eng.prove([], fsv[a] < thr)
                if st2 != "unsat":
                    undecided.append(a)
    have = {v.raw for v in m.vars if v.raw.startswith("CN_")}
    kept = None
    for combo in itertools.product([True, False], repeat=len(undecided)):
        extra = [(fsv[a] >= thr) if k_ else (fsv[a] < thr)
                 for a, k_ in zip(undecided, combo)]
        if undecided:
            st, _ = eng.satisfiable(extra)
            if st != "sat":
                continue
        kk = [a for a in gene.cn_configs
              if a in kept0 or (a in undecided and combo[undecided.index(a)])]
        slots = spec_slots(gene, gene.cn_configs, max_cn, kk)
        want = {f"CN_{a}_{i}" for a, i in slots}
        okv = want == have
        ob(res, f"{tag}: vars: structure slots exactly as specified (kept={kk})",
           "holds" if okv else "sat")
        if not okv:
            violation(eng, res, cfg, gene, c0, c1, fsv, extra, None,
                      f"structure variables differ from the specification "
                      f"(weak-fusion filter / slots): {sorted(want ^ have)[:6]}", "vars")
        else:
            kept = kk
    if kept is None or undecided:
        return
    slots = spec_slots(gene, gene.cn_configs, max_cn, kept)
    V = {s: m.byraw[f"CN_{s[0]}_{s[1]}"] for s in slots}
    used = {s: V[s].zv for s in slots}
    usedn = {s: V[s].num() for s in slots}
    obj = m.obj_z3()
    # evidence symbols shared with the spec
    if len(scales) != len(gene.unique_regions):
        ob(res, f"{tag}: one scale per copy-number region", "sat")
        return
    ev = {}
    hyp = []
    for r, sc in zip(gene.unique_regions, scales):
        d = c0[r] - (c1[r] if has_pseudo else 0)
        qv = None
        for key, (var, num) in sc.prods.items():
            qv = var
        if qv is None or len(sc.prods) != 1:
            ob(res, f"{tag}: scaled depth difference identified for {r}", "sat")
            return
        ev[r] = {"c0": c0[r], "inv": sc.inv, "q": qv, "d": d, "scale": sc.t}
        hyp += [sc.inv > 0, sc.inv <= 1, qv >= -8, qv <= 8]

    def prove(label, goal, key, hyps=None):
        t0 = time.time()
        h = (cons if hyps is None else hyps) + hyp
        st, mdl = eng.prove(h, goal)
        ob(res, f"{tag}: {label}", st, time.time() - t0)
        if st == "sat":
            violation(eng, res, cfg, gene, c0, c1, fsv, h + [z3.Not(goal)], ev, label,
                      key, obj=obj)
        return st

    # ---- well-formedness
    complete = [s for s in slots if s[1] <= 0]
    g = [z3.Sum([usedn[s] for s in complete]) == 2]
    for a in kept:
        g.append(z3.Implies(V[a, -1].zv, V[a, 0].zv))
        if gene.cn_configs[a].kind == CNConfigType.DEFAULT:
            for i in range(2, max_cn):
                g.append(z3.Implies(V[a, i].zv, V[a, i - 1].zv))
    if dele and dele in kept:
        for s in slots:
            if s[0] != dele:
                g.append(z3.Implies(V[dele, -1].zv, z3.Not(V[s].zv)))
    ps = [s for s in slots if s[0] == "PSEUDO"]
    prove("wf: two complete haplotypes; double deletion excludes all else; slots ordered",
          z3.And(g), "wf")
    # ---- objective: (i) linear form of the objective, (ii) per-term exactness,
    #      (iii) witness
    spec, resid = spec_objective(gene, profile, gene.cn_configs, slots, used, ev)
    nR = len(gene.unique_regions)
    want_coef = {}
    for r in gene.unique_regions:
        want_coef[f"ABS_E_{r}"] = profile.cn_diff / nR * (
            profile.cn_pce_penalty if r == "pce" else 1.0)
        want_coef[f"ABS_EG_{r}"] = profile.cn_fit / nR
    for s_ in slots:
        want_coef[f"CN_{s_[0]}_{s_[1]}"] = slot_penalty(gene, profile, s_)
    have_coef = {v.raw: k for v, k in m.objective.terms.items()}
    bad = [n for n in set(want_coef) | set(have_coef)
           if symx.is_sym(have_coef.get(n, 0))
           or abs(float(have_coef.get(n, 0)) - want_coef.get(n, 0)) > 1e-9]
    okc = not bad and not symx.is_sym(m.objective.const) and abs(m.objective.const) < 1e-12
    ob(res, f"{tag}: obj-form: objective = cn_diff/|R| sum w_r ABS_E_r + cn_fit/|R| sum "
            "ABS_EG_r + cn_parsimony*7.5/|R| sum (1+fusion penalty) slots",
       "holds" if okc else "sat", terms=len(want_coef))
    if not okc:
        violation(eng, res, cfg, gene, c0, c1, fsv, cons + hyp, ev,
                  f"objective coefficients differ for {sorted(bad)[:4]}", "obj", obj=obj)
    for r, d, gres in resid:
        names = {f"E_{r}", f"EG_{r}", f"ABS_E_{r}", f"ABS_EG_{r}"}
        sl = [c.z3() for c in m.constrs if any(v.raw in names for v in c.vars())]
        for v in m.vars:
            if v.raw in names:
                sl += v.bounds()
        try:
            ae, aeg = m.byraw[f"ABS_E_{r}"].zv, m.byraw[f"ABS_EG_{r}"].zv
        except KeyError:
            ob(res, f"{tag}: obj-term {r}: error variables exist", "sat")
            continue
        prove(f"obj-term {r}: ABS_E >= |scaled depth residual|, ABS_EG >= |gene residual|",
              z3.And(ae >= zabs(d), aeg >= zabs(gres)), "obj", hyps=sl)
    subs = witness_subst(m, resid)
    if subs is None:
        ob(res, f"{tag}: obj-wit: error variables identified", "sat")
    else:
        binc = [c.z3() for c in m.constrs if all(v.kind == "B" for v in c.vars())]
        prove("obj-wit: E=residual, ABS=|E| is feasible (so the minimum over the error "
              "variables is the documented objective)",
              z3.substitute(z3.And(cons), *subs), "obj", hyps=binc)
    # ---- admissible explanation => feasible point
    nc = {a: z3.Int(f"nc_{a}") for a in kept}
    k = z3.Int("k_extra")
    j = z3.Int("j_pseudo")
    h2 = [z3.And(nc[a] >= 0, nc[a] <= 2) for a in kept]
    h2.append(z3.Sum(list(nc.values())) == 2)
    h2 += [k >= 0, k <= max_cn - 1, j >= 0, j <= (max_cn if ps else 0)]
    if dele and dele in kept:
        h2.append(z3.Implies(nc[dele] == 2, z3.And(k == 0, j == 0)))
    enc = {}
    for s in slots:
        a, i = s
        if a == "PSEUDO":
            enc[s] = j >= i
        elif i == 0:
            enc[s] = nc[a] >= 1
        elif i == -1:
            enc[s] = nc[a] >= 2
        else:
            enc[s] = k >= i
    used2 = dict(enc)
    _, resid2 = spec_objective(gene, profile, gene.cn_configs, slots, used2, ev)
    subs2 = [(V[s].zv, enc[s]) for s in slots]
    w2 = witness_subst(m, resid2)
    if w2 is not None:
        prove("adm: every explanation (2 haplotypes, k extra copies, j pseudogene "
              "copies) has a feasible point",
              z3.substitute(z3.And(cons), *(subs2 + w2)), "adm", hyps=h2)
    st, _ = eng.satisfiable(cons + hyp)
    ob(res, f"{tag}: reachability twin (model feasible)", "confirmed" if st == "sat" else
       ("sat" if st == "unsat" else "unknown"))
    if len(res["samples"]) < 2:
        res["samples"].append({"config": tag, "slots": [list(s) for s in slots][:12],
                               "vars": len(m.vars), "constraints": len(m.constrs)})


def witness_subst(m, resid):
    tmap = {}
    for r, d, g in resid:
        tmap[f"E_{r}"] = d
        tmap[f"EG_{r}"] = g
    subs = []
    for v in m.vars:
        if v.kind == "B":
            continue
        if v.raw in tmap:
            subs.append((v.zv, tmap[v.raw]))
        elif v.raw.startswith("ABS_"):
            src = [w for w in m.vars if w.name == v.raw[4:]]
            if len(src) != 1 or src[0].raw not in tmap:
                return None
            t = tmap[src[0].raw]
            subs.append((v.zv, zabs(t)))
        else:
            return None
    return subs


# ------------------------------------------------------------------ counterexamples


def violation(eng, res, cfg, gene, c0, c1, fsv, hyps, ev, label, key, obj=None):
    """CEGAR: concretise depths, recompute exact inv/q, re-solve, then replay."""
    tried = 0
    block = []
    bounds = [None] if obj is None or not hyps else [1, 3, 6, 12, None]
    for b_ in bounds:
        h_ = list(hyps) + block + ([] if b_ is None else [obj <= symx.q(b_)])
        defs = []
        for r_, e_ in (ev or {}).items():
            defs += [e_["inv"] * e_["scale"] == 1, e_["q"] == e_["d"] * e_["inv"]]
        st, mm = eng.satisfiable(h_ + defs, timeout_ms=60000)
        if st != "sat":
            st, mm = eng.satisfiable(h_, timeout_ms=60000)
        if st != "sat":
            continue
        vals0 = {r: symx.model_value(mm, c0[r]) for r in c0}
        vals1 = {r: symx.model_value(mm, c1[r]) for r in c1}
        # round to the 0.01 grid of the property
        g0 = {r: round(float(v), 2) for r, v in vals0.items()}
        g1 = {r: round(float(v), 2) for r, v in vals1.items()}
        fsval = {a: float(symx.model_value(mm, v)) for a, v in fsv.items()}
        rp = {"kind": "model", "gene": cfg["gene"], "genome": cfg["genome"],
              "max_cn": cfg["max_cn"], "c0": g0, "c1": g1,
              "fs": fsval if fsv else None}
        tried += 1
        okk, msg = replay(rp)
        res["stats"]["replays"] = res["stats"].get("replays", 0) + 1
        if okk:
            res["violations"].append({
                "what": f"{cfg['gene']}/{cfg['genome']} max_cn={cfg['max_cn']}: "
                        f"{label}: {msg}", "key": f"{key}:{cfg['gene']}", "replay": rp})
            return True
        # spurious (abstraction) or not reported: block this depth vector's neighbourhood
        block.append(z3.Or([z3.Or(c0[r] < vals0[r] - z3.Q(1, 4), c0[r] > vals0[r] + z3.Q(1, 4))
                            for r in c0]))
    # last resort for structural differences: noise-free depth vectors of every pair of
    # configurations (the solver already fixed the fusion-support values)
    st, mm = eng.satisfiable(list(hyps), timeout_ms=60000)
    if st == "sat":
        fsval = {a: float(symx.model_value(mm, v)) for a, v in fsv.items()}
        pairs = list(itertools.combinations_with_replacement(sorted(gene.cn_configs), 2))
        cases = [(h, 0, 0) for h in pairs] + [(("1", "1"), k_, 0) for k_ in
                                               range(1, cfg["max_cn"] + 2)]
        dele = gene.deletion_allele()
        if len(gene.regions) > 1:
            # extra pseudogene copies on top of the reference pair / of a double deletion
            # (the latter has no admissible explanation with extras)
            for j_ in range(1, cfg["max_cn"] + 2):
                cases.append((("1", "1"), 0, j_))
                if dele:
                    cases.append(((dele, dele), 0, j_))
        for h, k_, j_ in cases:
            g0 = {r: float(sum(gene.cn_configs[a].cn[0].get(r, 0) for a in h)
                           + k_ * gene.cn_configs["1"].cn[0].get(r, 0))
                  for r in gene.unique_regions}
            g1 = {r: float(sum(gene.cn_configs[a].cn[1].get(r, 0) for a in h)
                           + j_ * gene.cn_configs["1"].cn[1].get(r, 0))
                  if len(gene.regions) > 1 else 0.0 for r in gene.unique_regions}
            rp = {"kind": "model", "gene": cfg["gene"], "genome": cfg["genome"],
                  "max_cn": cfg["max_cn"], "c0": g0, "c1": g1,
                  "fs": fsval if fsv else None}
            tried += 1
            okk, msg = replay(rp)
            res["stats"]["replays"] = res["stats"].get("replays", 0) + 1
            if okk:
                res["violations"].append({
                    "what": f"{cfg['gene']}/{cfg['genome']} max_cn={cfg['max_cn']}: "
                            f"{label}: {msg}", "key": f"{key}:{cfg['gene']}", "replay": rp})
                return True
    res["inconclusive"].append(
        f"{cfg['gene']}/{cfg['genome']} max_cn={cfg['max_cn']}: '{label}' refuted "
        f"symbolically but {tried} concretised depth vectors did not reproduce")
    ob(res, f"UNREPRODUCED counterexample: {label}", "inconclusive")
    return False


def explanations(gene, profile, max_cn, kept):
    """all admissible explanations: (haplotype pair, k, j) -> slots used."""
    dele = gene.deletion_allele()
    has_ps = len(gene.regions) > 1 and dele
    default = [a for a in kept if gene.cn_configs[a].kind == CNConfigType.DEFAULT]
    for h in itertools.combinations_with_replacement(sorted(kept), 2):
        for k in range(0, max_cn):
            for j in range(0, (max_cn if has_ps else 0) + 1):
                if dele and h == (dele, dele) and (k or j):
                    continue
                slots = []
                cnt = collections.Counter(h)
                for a, n in cnt.items():
                    slots.append((a, 0))
                    if n == 2:
                        slots.append((a, -1))
                slots += [(default[0], i) for i in range(1, k + 1)] if default else []
                if k and not default:
                    continue
                slots += [("PSEUDO", i) for i in range(1, j + 1)]
                yield h, k, j, slots


def concrete_score(gene, profile, slots, c0, c1):
    nR = len(gene.unique_regions)
    diff = fit = 0.0
    for r in gene.unique_regions:
        G = X = 0
        for s in slots:
            g0, g1 = slot_cn(gene, gene.cn_configs, s)
            G += g0.get(r, 0)
            X += g0.get(r, 0) - g1.get(r, 0)
        scale = max(c0[r], c1.get(r, 0.0)) + 1
        e = (c0[r] - c1.get(r, 0.0)) / scale - X / scale
        eg = c0[r] - G
        if abs(e) > profile.cn_max or abs(eg) > profile.cn_max:
            return None
        diff += (profile.cn_pce_penalty if r == "pce" else 1.0) * abs(e)
        fit += abs(eg)
    pars = sum(slot_penalty(gene, profile, s) for s in slots)
    return profile.cn_diff / nR * diff + profile.cn_fit / nR * fit + pars


def replay(o):
    if o["kind"] == "enum":
        import c05
        return c05.replay_enum(o)
    if o["kind"] == "none":
        return True, "observed directly on the real wrapper"
    if o["kind"] == "wrapper":
        return replay_wrapper(o)
    import aldy.cn as cn

    gene = gengene.load(o["gene"], o["genome"])
    dele = gene.deletion_allele()
    has_pseudo = len(gene.regions) > 1
    c0, c1 = o["c0"], (o["c1"] if has_pseudo else {})
    region_cov = {r: (c0[r], c1.get(r, 0.0) if has_pseudo else 0.0)
                  for r in gene.unique_regions}
    fs = o.get("fs") or None
    for gap in (0, 0.1, 0.3):
        profile = Profile("replay", gap=gap)
        max_cn = o["max_cn"]
        try:
            sols = cn.solve_cn_model(gene, profile, gene.cn_configs, max_cn, region_cov,
                                     "any", None, fs)
        except Exception as e:  # noqa
            return True, f"solve_cn_model raised {type(e).__name__}: {e}"
        kept = [a for a in gene.cn_configs
                if not fs or a == "1" or (dele and a == dele)
                or (a in fs and fs[a] >= 1 / (2 * max_cn))]
        best = {}
        for h, k, j, slots in explanations(gene, profile, max_cn, kept):
            sc = concrete_score(gene, profile, slots, c0, c1)
            if sc is None:
                continue
            name = tuple(sorted([a for a in h if a != dele] + ["1"] * k))
            if name not in best or sc < best[name][0]:
                best[name] = (sc, slots)
        probs = []
        rep = {}
        for s in sols:
            name = tuple(sorted(s.solution.elements()))
            if name in rep:
                probs.append(f"structure {name} reported twice")
            rep[name] = s.score
            if name not in best:
                probs.append(f"reported structure {name} is not an admissible structure "
                             "(two complete haplotypes + extra copies)")
            elif abs(best[name][0] - s.score) > 1e-4:
                probs.append(f"reported score {s.score} of {name} differs from the "
                             f"documented objective {best[name][0]} of its best explanation")
        if best:
            gmin = min(v[0] for v in best.values())
            if not rep:
                probs.append(f"nothing reported although structures exist (best {gmin})")
            else:
                if min(rep.values()) > gmin + 1e-4:
                    arg = min(best, key=lambda k_: best[k_][0])
                    probs.append(f"best reported {min(rep.values())} but {arg} scores {gmin}")
                for name, sc in rep.items():
                    if sc > (1 + gap) * gmin + 1e-4:
                        probs.append(f"reported {name} ({sc}) outside gap of {gmin}")
                for name, (sc, slots) in best.items():
                    if name in rep or sc > (1 + gap) * gmin - 1e-4:
                        continue
                    dom = [n for n, rs in rep.items()
                           if not (collections.Counter(n) - collections.Counter(name))
                           and rs <= sc + 1e-4]
                    if not dom:
                        probs.append(f"within-gap structure {name} ({sc}) is neither "
                                     "reported nor contains a reported structure scoring "
                                     "no worse")
        if probs:
            return True, f"gap={gap}: " + "; ".join(probs[:2]) + \
                f" [depths gene={c0} pseudo={c1} fs={fs}]"
    return False, f"real code agrees with the enumeration [depths gene={c0} pseudo={c1}]"


# ------------------------------------------------------------------ estimate_cn wrapper


class FakeCov:
    def __init__(self, gene, rc, profile, fc=None):
        self.gene, self.rc, self.profile = gene, rc, profile
        self.sam = type("FakeSam", (), {"_fusion_counter": fc or {}})()

    def region_coverage(self, gi, r):
        return self.rc[gi, r]


def run_wrapper(cfg):
    import math
    import aldy.cn as cn

    res = new_result(cfg)
    gene0 = gengene.load(cfg["gene"], cfg["genome"])
    eng = Engine(name="c03w")
    names = list(gene0.cn_configs)
    tag = f"wrapper/{cfg['gene']}"
    # (1) user-supplied structure: all lists of <= 3 items over names + an unknown one
    universe = names + ["nope"]
    n_ok = n_bad = 0
    for ln in range(1, 4):
        for lst in itertools.product(universe, repeat=ln):
            prof = Profile("user", cn_solution=list(lst))
            try:
                r = cn.estimate_cn(gene0, prof, None, "any")
                good = (all(x in gene0.cn_configs for x in lst) and len(r) == 1
                        and r[0].solution == collections.Counter(lst) and r[0].score == 0)
            except AldyException:
                good = any(x not in gene0.cn_configs for x in lst)
            if good:
                n_ok += 1
            else:
                n_bad += 1
                res["violations"].append({
                    "what": f"user-supplied structure {lst} not used verbatim / unknown "
                            "name not rejected", "key": "user",
                    "replay": {"kind": "wrapper", "gene": cfg["gene"],
                               "genome": cfg["genome"], "user": list(lst)}})
    ob(res, f"{tag}: user-supplied structure used verbatim; unknown names rejected "
            f"({n_ok} lists)", "holds" if not n_bad else "sat")
    # (2) no copy-number calling: two default copies, one for male X/Y
    import copy as _copy

    for ch in ("X", "Y", "1"):
        g = _copy.copy(gene0)
        g.do_copy_number = False
        g.chr = ch
        male = z3.Bool("male")

        def run():
            prof = Profile("nocn")
            prof.male = SB(male)
            return cn.estimate_cn(g, prof, None, "any")

        for dec, pc, r in eng.explore(run, []):
            n = sum(r[0].solution.values())
            only_default = set(r[0].solution) == {"1"}
            want = z3.If(z3.And(male, z3.BoolVal(ch in ("X", "Y"))), 1, 2)
            st, mdl = eng.prove([], z3.And(want == n, z3.BoolVal(only_default)))
            ob(res, f"{tag}: chr={ch}: without CN calling two default copies (one for "
                    "male X/Y)", st)
            if st == "sat":
                mv = bool(symx.model_value(mdl, male))
                res["violations"].append({
                    "what": f"no-CN default for chr={ch} male={mv} gives {dict(r[0].solution)}",
                    "key": "default", "replay": {"kind": "wrapper", "gene": cfg["gene"],
                                                 "genome": cfg["genome"], "chr": ch,
                                                 "male": mv}})
    # (3) max copy number, low-depth guard, fusion support handed to the model
    if gene0.do_copy_number:
        rc, base = {}, []
        for gi, g_ in enumerate(gene0.regions):
            for r in g_:
                v = z3.Real(f"d_{gi}_{r}")
                rc[gi, r] = S(v)
                base += [v >= 0, v <= 6]
        rec = {}
        saved = {k: cn.__dict__.get(k) for k in
                 ("max", "ceil", "sum", "solve_cn_model", "_filter_configs",
                  "_print_coverage")}
        cn.max = symx.smax
        cn.ceil = lambda x: math.ceil(x)
        cn.sum = symx.ssum
        cn._filter_configs = lambda gene, cov: dict(gene.cn_configs)
        cn._print_coverage = lambda gene, cov: None

        def fake_solve(gene, profile, configs, max_cn, region_cov, solver, debug, fsup):
            rec.update(max_cn=max_cn, region_cov=region_cov, fs=fsup)
            return ["called"]

        cn.solve_cn_model = fake_solve
        a_, b_ = z3.Real("fa"), z3.Real("fb")
        fus = [n for n, c in gene0.cn_configs.items()
               if c.kind in (CNConfigType.LEFT_FUSION, CNConfigType.RIGHT_FUSION)]
        fc = {fus[0]: [S(a_), S(b_)]} if fus else {}
        base += [a_ >= 0, b_ >= 0, a_ <= b_]
        try:
            def run2():
                rec.clear()
                prof = Profile("w")
                try:
                    r = cn.estimate_cn(gene0, prof, FakeCov(gene0, rc, prof, fc), "any")
                    return "ok", dict(rec)
                except AldyException:
                    return "raise", None

            min_cov = min(sum(sum(v.values()) for v in gene0.cn_configs[c].cn)
                          for c in gene0.cn_configs)
            tot = z3.Sum([symx.tz(rc[0, r]) + (symx.tz(rc[1, r]) if len(gene0.regions) > 1
                                               else 0) for r in gene0.unique_regions])
            allv = [symx.tz(v) for v in rc.values()]
            for dec, pc, (st_, rr) in eng.explore(run2, base, max_paths=4000):
                low = tot < symx.q(min_cov / 2.0)
                if st_ == "raise":
                    s1, _ = eng.prove([], low)
                    ob(res, f"{tag}: low-depth guard raises only below half of the "
                            "smallest configuration", s1)
                    if s1 == "sat":
                        res["violations"].append({
                            "what": "estimate_cn rejects a sample whose depth is not low",
                            "key": "guard", "replay": {"kind": "none"}})
                    continue
                s1, _ = eng.prove([], z3.Not(low))
                ob(res, f"{tag}: structure model is not run on depth below the guard", s1)
                mc = symx.tz(rr["max_cn"])
                g = z3.And([mc >= v + 1 for v in allv] + [z3.Or([mc < v + 2 for v in allv])])
                s2, _ = eng.prove([], g)
                ob(res, f"{tag}: max copy number = 1 + ceil(max region depth)", s2)
                # the structure model receives exactly the normalised depths of the
                # copy-number regions: gene first, pseudogene second (0.0 without one)
                rcov = rr["region_cov"]
                g3 = [z3.BoolVal(set(rcov) == set(gene0.unique_regions))]
                for r in gene0.unique_regions:
                    if r in rcov:
                        g3.append(symx.tz(rcov[r][0]) == symx.tz(rc[0, r]))
                        g3.append(symx.tz(rcov[r][1]) == (symx.tz(rc[1, r])
                                                          if len(gene0.regions) > 1
                                                          else z3.RealVal(0)))
                s4, _ = eng.prove([], z3.And(g3))
                ob(res, f"{tag}: the structure model is handed exactly the normalised "
                        "depths of the copy-number regions", s4)
                if s4 == "sat":
                    res["violations"].append({
                        "what": "estimate_cn hands the structure model other depths than "
                                "the normalised region depths", "key": "wrapper-depths",
                        "replay": {"kind": "none"}})
                if fus:
                    fsv = rr["fs"]
                    s3 = "holds"
                    if fsv is not None:
                        s3, _ = eng.prove([], z3.And(
                            z3.Implies(b_ > 0, symx.tz(fsv[fus[0]]) * b_ == a_),
                            z3.Implies(b_ == 0, symx.tz(fsv[fus[0]]) == 0)))
                    ob(res, f"{tag}: fusion support = supporting/spanning reads (0 if none)",
                       s3)
                for s_ in (s1, s2):
                    if s_ == "sat":
                        res["violations"].append({
                            "what": "estimate_cn wrapper: max copy number / guard wrong",
                            "key": "wrapper", "replay": {"kind": "none"}})
        finally:
            for k_, v in saved.items():
                if v is None:
                    cn.__dict__.pop(k_, None)
                else:
                    cn.__dict__[k_] = v
    res["stats"] = {**dict(eng.stats), **res["stats"]}
    return res


def replay_wrapper(o):
    import copy as _copy
    import aldy.cn as cn

    gene = gengene.load(o["gene"], o["genome"])
    if "user" in o:
        lst = o["user"]
        try:
            r = cn.estimate_cn(gene, Profile("u", cn_solution=lst), None, "any")
            good = (all(x in gene.cn_configs for x in lst)
                    and r[0].solution == collections.Counter(lst))
        except AldyException:
            good = any(x not in gene.cn_configs for x in lst)
        return (not good), f"user structure {lst}"
    g = _copy.copy(gene)
    g.do_copy_number = False
    g.chr = o["chr"]
    p = Profile("n")
    p.male = o["male"]
    r = cn.estimate_cn(g, p, None, "any")
    want = 1 if (o["male"] and o["chr"] in ("X", "Y")) else 2
    return sum(r[0].solution.values()) != want, f"got {dict(r[0].solution)} want {want} copies"
