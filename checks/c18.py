"""
C18 -- model parameters take the values the user gave, through every route.

Engine E1 (symx, z3 strings): the real Profile.__init__/update, Profile.load merge and
the --param splitter of `aldy genotype` run with *symbolic value strings* (printable
ASCII, bounded length); every comparison on the value forks the path and z3 proves the
typed result against the specification on each path.
Engine E2 (CrossHair): native bool / int values, and numeric strings (int()/float()
cannot be executed on a z3 string; CrossHair searches those for counterexamples and
usually cannot exhaust them -- reported as not exhausted, never as a pass-by-timeout).
"""
import os
import argparse
import time
import z3

import symx
import xcheck
from symx import SStr, SB, Engine
from vcommon import new_result, ob
from aldy.profile import Profile
from aldy.common import AldyException

PROPERTY = "C18"
LEVEL = "model_checking"
MODULE = "h18"
FUNCTIONS = ["aldy.profile.Profile.__init__", "aldy.profile.Profile.update",
             "aldy.profile.Profile.load (merge of options and params)",
             "aldy.__main__._genotype (--param splitter)"]
STUBS = ["yaml.safe_load in aldy.profile -> returns the in-memory profile dict",
         "aldy.__main__.genotype -> recorder",
         "YAML typed scalars assumed preserved by dump/load (round trip)",
         "symbolic strings are str subclasses with z3 String semantics for ==, in, lower, "
         "replace(char), split(sep,1), slicing, +"]
OUTSIDE = ["the --param splitter inside main() for the `profile` sub-command "
           "(same three lines; argparse on symbolic argv is out of reach)",
           "non-ASCII value strings, strings longer than the bounds, parameter names "
           "that collide with genotype()'s own keyword arguments",
           "numeric value strings are searched by CrossHair but not exhausted"]
ASSUMPTIONS = ["printable-ASCII values; Python's str.lower/replace/split semantics as "
               "modelled in symx.SStr (validated against concrete strings at start-up)"]
RULE = ("E1: one obligation = one z3 query per path of the real code on a symbolic "
        "string; E2: one obligation = one CrossHair condition; counterexamples are "
        "re-run on the real code with the concrete value before they are reported")

_P0 = Profile("x").__dict__
STRUCT = ("name", "cn_region", "data", "cn_solution")
BOOLS = sorted(k for k, v in _P0.items() if isinstance(v, bool))
STRS = sorted(k for k, v in _P0.items() if isinstance(v, str) and k not in STRUCT)
XH = [
    ("bool_param_native", 20, "boolean from a real bool"),
    ("bool_param_int", 20, "boolean from 1/0"),
    ("num_param_native", 30, "numeric parameter from a native int"),
    ("int_param_string", 40, "integer parameter from a string of <=4 chars"),
    ("float_param_string", 40, "float parameter from a string of <=4 chars"),
]


def BOUNDS(tier):
    L = 5 if tier == "quick" else 6
    return [f"E1: value strings of length <= {L} over printable ASCII, every boolean and "
            "string attribute of Profile() (enumerated from the live object); --param "
            f"argument of length <= {L + 1}; 4 unknown parameter names",
            "E2: CrossHair per-condition budget 20-40 s (x4 thorough)"]


def configs(tier):
    L = 5 if tier == "quick" else 6
    c = []
    for n in BOOLS:
        c.append({"kind": "bool", "name": n, "L": L})
        c.append({"kind": "merge", "name": n, "L": 5})
    for n in STRS:
        c.append({"kind": "str", "name": n, "L": L})
    c.append({"kind": "cli", "L": L + 1})
    for n in BOOLS[:3] + STRS[:1]:
        c.append({"kind": "written", "name": n, "L": L})
    c.append({"kind": "unknown", "L": 3})
    # documented types: every numeric parameter against the type its documentation states
    c.append({"kind": "doctype"})
    # non-interference: two different parameters given together (either order, through the
    # constructor, a later update, or profile options + explicit parameters) both take the
    # given values and no third attribute moves; an explicit parameter beats the same
    # option of the profile file for parameters of every type
    c.append({"kind": "frame"})
    # the dump route: the parameters given to a run from a debug dump are the ones in force
    # at the stages (shared with C17)
    c += [{"kind": "route", "min": 5.0}, {"kind": "route", "min": 5.0, "user": True}]
    k = 1 if tier == "quick" else 4
    c += [{"kind": "xh", "func": f, "timeout": t * k, "desc": d} for f, t, d in XH]
    return c


def documented_types():
    """{parameter: (type, documented default text)} read from the documentation strings
    that follow the assignments in Profile.__init__ ("Default: <literal>")."""
    import ast
    import re
    import inspect
    import aldy.profile as pm

    tree = ast.parse(inspect.getsource(pm))
    out = {}
    for cls in [n for n in ast.walk(tree) if isinstance(n, ast.ClassDef)
                and n.name == "Profile"]:
        init = [n for n in cls.body if isinstance(n, ast.FunctionDef)
                and n.name == "__init__"][0]
        body = init.body
        for i, st in enumerate(body[:-1]):
            if isinstance(st, ast.Assign) and isinstance(st.targets[0], ast.Attribute) \
                    and isinstance(body[i + 1], ast.Expr) \
                    and isinstance(getattr(body[i + 1], "value", None), ast.Constant) \
                    and isinstance(body[i + 1].value.value, str):
                m = re.search(r"Default:\s*`?([^\s`(]+)", body[i + 1].value.value)
                if not m:
                    continue
                lit = m.group(1).rstrip(".,")
                if lit in ("True", "False"):
                    t = bool
                elif re.fullmatch(r"-?\d+", lit):
                    t = int
                elif re.fullmatch(r"-?\d*\.\d+(e-?\d+)?|-?\d+e-?\d+", lit):
                    t = float
                else:
                    continue
                out[st.targets[0].attr] = (t, lit)
    return out


def run_doctype(cfg):
    res = new_result(cfg)
    eng = Engine(name="c18d")
    doc = documented_types()
    names = sorted(n for n, (t, _) in doc.items() if t in (int, float))
    ni, vi = z3.Int("param"), z3.Int("value")
    floats = [0.5, 2.5, 1e-3, 7.0]
    ints = [0, 3, 12]

    def run():
        n = names[eng.choose(ni, range(len(names)))]
        t = doc[n][0]
        vals = floats if t is float else ints
        v = vals[eng.choose(vi, range(len(vals)))]
        probs = []
        d0 = getattr(Profile(""), n)
        # a default documented with a decimal point is a float; one documented without it
        # is a number (several float parameters are documented as "2")
        ok_t = (float,) if t is float else (int, float)
        if type(d0) not in ok_t:
            probs.append(f"default {d0!r} is {type(d0).__name__}, documented "
                         f"'{doc[n][1]}' ({t.__name__})")
        for given in (v, str(v)):
            try:
                got = Profile("").update({n: given})[n]
            except AldyException:
                probs.append(f"{given!r} rejected")
                continue
            if type(got) not in ok_t or got != v:
                probs.append(f"{given!r} stored as {got!r} ({type(got).__name__})")
        return (n, v), probs

    k = 0
    for dec, pc, ((n, v), probs) in eng.explore(run, [], max_paths=10000):
        k += 1
        ob(res, "doctype: a numeric parameter has its documented type, and a value of that "
                "type (native or as a string) is stored exactly", "holds" if not probs
           else "sat")
        if probs:
            res["violations"].append({
                "what": f"parameter {n} (documented {doc[n][0].__name__}, default "
                        f"{doc[n][1]}): " + "; ".join(probs), "key": "doctype:" + n,
                "replay": {"kind": "doctype", "name": n, "values": [v]}})
    seen = {}
    for v_ in res["violations"]:
        seen.setdefault(v_["key"], v_)
    res["violations"] = list(seen.values())
    res["stats"] = {**dict(eng.stats), "paths": k, "parameters": len(names)}
    return res


def frame_values():
    """{parameter: (non-default value, second non-default value)} for every non-structural
    attribute of the live Profile object."""
    out = {}
    for n, d in sorted(_P0.items()):
        if n in STRUCT or d is None:
            continue
        if isinstance(d, bool):
            out[n] = (not d, not d)
        elif isinstance(d, int):
            out[n] = (d + 3, d + 5)
        elif isinstance(d, float):
            out[n] = (d + 0.75, d + 2.5)
        elif isinstance(d, str):
            out[n] = (d + "q", d + "zz")
    return out


def load_two(opts, params):
    import aldy.profile as ap

    prof = {"neutral": {"value": 100, "hg19": ["1", 10, 20]}, "G": {}}
    if opts:
        prof["options"] = dict(opts)
    saved = ap.yaml.safe_load
    ap.yaml.safe_load = lambda f: prof
    try:
        path = os.path.join(os.path.dirname(os.path.abspath(__file__)), "..", "harness",
                            "empty.yml")
        return Profile.load(_FakeGene(), path, None, **params)
    finally:
        ap.yaml.safe_load = saved


def frame_case(a, b, route, fv=None):
    """problems of giving parameters a and b (a != b) together through `route`."""
    fv = fv or frame_values()
    va, vb = fv[a][0], fv[b][0]
    probs = []
    if route.startswith(("load", "precedence")) and "neutral_value" in (a, b):
        return []  # Profile.load passes neutral_value itself (from the profile's table)
    try:
        if route == "ctor":
            p = Profile("x", **{a: va, b: vb})
        elif route == "update":
            p = Profile("x", **{a: va})
            p.update({b: vb})
        elif route == "update1":
            p = Profile("x")
            p.update({a: va, b: vb})
        elif route == "load":
            p = load_two({a: va}, {b: vb})
        elif route == "loadopts":
            p = load_two({a: va, b: vb}, {})
        elif route == "loadparams":
            p = load_two({}, {a: va, b: vb})
        elif route == "precedence":
            # the profile file states a (second value) and b; the user gives a explicitly
            p = load_two({a: fv[a][1], b: vb}, {a: va})
        else:
            raise KeyError(route)
    except AldyException as e:
        return [f"rejected: {e}"]
    want = {a: va, b: vb}
    for n in fv:
        if n == "neutral_value" and route.startswith(("load", "precedence")):
            continue  # taken from the profile's neutral table by Profile.load
        w = want.get(n, _P0[n])
        g = getattr(p, n)
        if g != w or type(g) is not type(w):
            probs.append(f"{n} = {g!r}, expected {w!r}")
    return probs


FRAME_ROUTES = ["ctor", "update", "update1", "load", "loadopts", "loadparams", "precedence"]


def run_frame(cfg):
    res = new_result(cfg)
    eng = Engine(name="c18f")
    fv = frame_values()
    names = sorted(fv)
    ai, bi, ri = z3.Int("a"), z3.Int("b"), z3.Int("route")

    def run():
        a = names[eng.choose(ai, range(len(names)))]
        b = names[eng.choose(bi, range(len(names)))]
        if a == b:
            raise symx.PathAbort()
        r = FRAME_ROUTES[eng.choose(ri, range(len(FRAME_ROUTES)))]
        return (a, b, r), frame_case(a, b, r, fv)

    k = 0
    for dec, pc, ((a, b, r), probs) in eng.explore(run, [ai != bi], max_paths=100000):
        k += 1
        ob(res, "frame: two parameters given together both take the given values, every "
                "other attribute keeps its default, explicit parameters beat profile options",
           "holds" if not probs else "sat")
        if probs:
            res["violations"].append({
                "what": f"parameters {a}={fv[a][0]!r} then {b}={fv[b][0]!r} via {r}: "
                        + "; ".join(probs[:3]), "key": f"frame:{r}:{probs[0].split(' ')[0]}",
                "replay": {"kind": "frame", "a": a, "b": b, "route": r, "values": []}})
    seen = {}
    for v_ in res["violations"]:
        seen.setdefault(v_["key"], v_)
    res["violations"] = list(seen.values())
    res["stats"] = {**dict(eng.stats), "paths": k, "parameters": len(names)}
    return res


def run_config(cfg):
    if cfg["kind"] == "route":
        import c17
        return c17.run_route(cfg)
    if cfg["kind"] == "xh":
        return xcheck.run_harness(cfg, MODULE)
    return globals()["run_" + cfg["kind"]](cfg)


def spec_bool_z(v):
    """(is_true, is_false) for a symbolic string."""
    low = v.lower().z
    return (z3.Or(low == "true", low == "1"), z3.Or(low == "false", low == "0"))


def concrete(mdl, v):
    return mdl.eval(v.z, model_completion=True).as_string()


def report(res, eng, label, goal, v_list, rp):
    t0 = time.time()
    st, mdl = eng.prove([], goal)
    ob(res, label, st, time.time() - t0)
    if st == "sat":
        rp = dict(rp)
        rp["values"] = [concrete(mdl, v) for v in v_list]
        okk, msg = replay(rp)
        res["stats"]["replays"] = res["stats"].get("replays", 0) + 1
        if okk:
            res["violations"].append({"what": msg, "key": rp["key"], "replay": rp})
        else:
            res["inconclusive"].append(f"{label}: {rp['values']!r} did not reproduce: {msg}")
            ob(res, f"UNREPRODUCED counterexample: {label}", "inconclusive")


def run_bool(cfg):
    res = new_result(cfg)
    name = cfg["name"]
    eng = Engine(name="c18")
    v = SStr.var("v", cfg["L"])
    wt, wf = spec_bool_z(v)

    def run():
        p0 = Profile("")
        try:
            d = p0.update({name: v})
        except AldyException:
            return "rej", None, None, None
        first = d.get(name)
        try:
            second = getattr(Profile("y", **d), name)  # options written, loaded again
        except AldyException:
            second = "rejected"
        return "ok", getattr(p0, name), first, second

    for dec, pc, (st, got, first, second) in eng.explore(run, v.constraints()):
        if st == "rej":
            g = z3.Not(z3.Or(wt, wf))
            what = "rejected only if malformed"
        else:
            g = z3.And(z3.BoolVal(isinstance(got, bool)),
                       z3.If(z3.BoolVal(bool(got)), wt, wf),
                       z3.BoolVal(first is got and second is got))
            what = f"= {got!r}: value is the spelled boolean; update() returns it; " \
                   "written-then-loaded gives the same"
        report(res, eng, f"bool {name} from string: {what}", g, [v],
               {"kind": "bool", "name": name, "key": "bool-string"})
    res["stats"] = {**dict(eng.stats), **res["stats"]}
    res["samples"].append({"attribute": name, "paths": eng.stats["paths"]})
    return res


def run_str(cfg):
    res = new_result(cfg)
    name = cfg["name"]
    eng = Engine(name="c18")
    v = SStr.var("v", cfg["L"])

    def run():
        try:
            p = Profile("x", **{name: v})
        except AldyException:
            return "rej", None
        return "ok", getattr(p, name)

    for dec, pc, (st, got) in eng.explore(run, v.constraints()):
        if st == "rej":
            g = z3.BoolVal(False)
        else:
            g = (got.z == v.z) if isinstance(got, SStr) else (v.z == z3.StringVal(str(got)))
        report(res, eng, f"string parameter {name} takes the given value", g, [v],
               {"kind": "str", "name": name, "key": "str"})
    res["stats"] = {**dict(eng.stats), **res["stats"]}
    return res


class _FakeGene:
    name = "G"
    genome = "hg19"


def load_with(name, vo, vp):
    import aldy.profile as ap

    prof = {"neutral": {"value": 100, "hg19": ["1", 10, 20]}, "G": {}}
    if vo is not None:
        prof["options"] = {name: vo}
    params = {name: vp} if vp is not None else {}
    saved = ap.yaml.safe_load
    ap.yaml.safe_load = lambda f: prof
    try:
        path = os.path.join(os.path.dirname(os.path.abspath(__file__)), "..", "harness",
                            "empty.yml")
        p = Profile.load(_FakeGene(), path, None, **params)
        return "ok", getattr(p, name)
    except AldyException:
        return "rej", None
    finally:
        ap.yaml.safe_load = saved


def run_merge(cfg):
    res = new_result(cfg)
    name = cfg["name"]
    eng = Engine(name="c18")
    vo, vp = SStr.var("vo", cfg["L"]), SStr.var("vp", cfg["L"])
    for mode in ("both", "opt", "par", "none"):
        a = vo if mode in ("both", "opt") else None
        b = vp if mode in ("both", "par") else None
        eff = b if b is not None else a

        def run():
            return load_with(name, a, b)

        for dec, pc, (st, got) in eng.explore(run, vo.constraints() + vp.constraints()):
            if eff is None:
                g = z3.BoolVal(st == "ok" and got is _P0[name])
            else:
                wt, wf = spec_bool_z(eff)
                if st == "rej":
                    # options are only consulted when no explicit parameter is given
                    g = z3.Not(z3.Or(wt, wf))
                else:
                    g = z3.If(z3.BoolVal(bool(got)), wt, wf)
            report(res, eng, f"load merge {name} ({mode}): explicit parameter overrides "
                             "options; typed like a direct update", g, [vo, vp],
                   {"kind": "merge", "name": name, "mode": mode, "key": "merge"})
    res["stats"] = {**dict(eng.stats), **res["stats"]}
    return res


def cli_run(p):
    import aldy.__main__ as M

    calls = []
    saved = M.genotype
    M.genotype = lambda **kw: calls.append(kw)
    args = argparse.Namespace(
        cn_neutral_region=None, cn=None, file="s.bam", profile="wgs", param=[[p]],
        simple=False, log=None, debug=None, solver="any", reference=None,
        multiple_warn_level=1, genome=None, gene="cyp2d6")
    try:
        M._genotype("cyp2d6", None, args)
    except TypeError:
        return None
    finally:
        M.genotype = saved
    return calls


FIXED_KW = ("gene_db", "sam_path", "profile_name", "output_file", "cn_region",
            "cn_solution", "report", "is_simple", "debug", "solver", "reference",
            "multiple_warn_level", "genome")


def run_cli(cfg):
    res = new_result(cfg)
    eng = Engine(name="c18")
    p = SStr.var("p", cfg["L"])
    i = z3.IndexOf(p.z, z3.StringVal("="), 0)
    want_k = SStr(z3.SubString(p.z, 0, i), cfg["L"]).replace("-", "_").z
    want_v = z3.SubString(p.z, i + 1, z3.Length(p.z) - i - 1)
    has_eq = z3.Contains(p.z, z3.StringVal("="))

    def run():
        return cli_run(p)

    for dec, pc, calls in eng.explore(run, p.constraints()):
        if calls is None:
            continue
        if not calls:
            g = z3.Not(has_eq)
            what = "no call only without '='"
        else:
            extra = [(k, v) for k, v in calls[0].items() if isinstance(k, SStr)]
            if len(calls) != 1 or len(extra) != 1:
                g = z3.BoolVal(False)
            else:
                k, v = extra[0]
                vz = v.z if isinstance(v, SStr) else z3.StringVal(str(v))
                g = z3.And(has_eq, k.z == want_k, vz == want_v)
            what = "NAME (dashes -> underscores) = everything after the first '='"
        report(res, eng, f"--param splitting: {what}", g, [p], {"kind": "cli", "key": "cli"})
    res["stats"] = {**dict(eng.stats), **res["stats"]}
    return res


def run_written(cfg):
    """the profile command's options section: the real get_sam_profile_data (uniform
    '<illumina>' pseudo-sample, no file access) with a symbolic parameter string."""
    from aldy.common import GRange

    res = new_result(cfg)
    name = cfg["name"]
    eng = Engine(name="c18")
    v = SStr.var("v", cfg["L"])
    regs = {("G", "e1", 0): GRange("1", 10, 20)}

    def run():
        try:
            d = Profile.get_sam_profile_data("<illumina>", regions=dict(regs),
                                             cn_region=GRange("1", 100, 200),
                                             genome="hg19", params={name: v})
        except AldyException:
            return "rej", None
        return "ok", d

    for dec, pc, (st, d) in eng.explore(run, v.constraints()):
        if name in BOOLS:
            wt, wf = spec_bool_z(v)
            if st == "rej":
                g = z3.Not(z3.Or(wt, wf))
            else:
                o = d.get("options", {})
                g = z3.And(z3.BoolVal(set(o) == {name} and isinstance(o.get(name), bool)),
                           z3.If(z3.BoolVal(bool(o.get(name))), wt, wf))
        else:
            o = (d or {}).get("options", {})
            val = o.get(name)
            g = z3.BoolVal(st == "ok" and set(o) == {name}) if not isinstance(val, SStr) \
                else z3.And(z3.BoolVal(set(o) == {name}), val.z == v.z)
        report(res, eng, f"written profile: options section carries {name} with the typed "
                         "value", g, [v], {"kind": "written", "name": name, "key": "written"})
    res["stats"] = {**dict(eng.stats), **res["stats"]}
    return res


def run_unknown(cfg):
    res = new_result(cfg)
    eng = Engine(name="c18")
    v = SStr.var("v", cfg["L"])
    for name in ("foo", "Phase", "min-coverage", "gap "):
        def run():
            try:
                return Profile("x", **{name: v}).__dict__
            except AldyException:
                return None

        for dec, pc, d in eng.explore(run, v.constraints()):
            good = d is not None and d == _P0
            ob(res, f"unknown parameter {name!r} is ignored", "holds" if good else "sat")
            if not good:
                res["violations"].append({
                    "what": f"unknown parameter {name!r} not ignored", "key": "unknown",
                    "replay": {"kind": "unknown", "name": name, "values": ["x"],
                               "key": "unknown"}})
    res["stats"] = {**dict(eng.stats), **res["stats"]}
    return res


# ------------------------------------------------------------------ replay (concrete)


def spec_bool(v):
    s = v.lower()
    return True if s in ("true", "1") else False if s in ("false", "0") else None


def replay(o):
    if o.get("kind") == "route":
        import c17
        return c17.replay_route(o)
    if "module" in o:
        return xcheck.replay(o)
    vals = o["values"]
    k = o["kind"]
    if k == "frame":
        probs = frame_case(o["a"], o["b"], o["route"])
        return bool(probs), f"{o['a']} / {o['b']} via {o['route']}: {probs[:3]}"
    if k == "doctype":
        doc = documented_types()
        t = doc[o["name"]][0]
        ok_t = (float,) if t is float else (int, float)
        bad = []
        if type(getattr(Profile(""), o["name"])) not in ok_t:
            bad.append("default type")
        for given in (vals[0], str(vals[0])):
            try:
                got = Profile("").update({o["name"]: given})[o["name"]]
                if type(got) not in ok_t or got != vals[0]:
                    bad.append(f"{given!r} -> {got!r}")
            except AldyException:
                bad.append(f"{given!r} rejected")
        return bool(bad), f"{o['name']}: {bad}"
    if k == "bool":
        v = vals[0]
        want = spec_bool(v)
        try:
            d = Profile("").update({o["name"]: v})
            got = d[o["name"]]
        except AldyException:
            return want is not None, f"{o['name']}={v!r} rejected but is a valid boolean"
        if want is None:
            return True, f"{o['name']}={v!r} (malformed) accepted as {got!r}"
        if got is not want:
            return True, f"{o['name']}={v!r} gives {got!r}"
        try:
            second = getattr(Profile("y", **d), o["name"])
        except AldyException:
            return True, f"{o['name']}: written value {got!r} rejected on load"
        return second is not want, (f"{o['name']}={v!r}: written {got!r}, loaded back as "
                                    f"{second!r}")
    if k == "str":
        try:
            got = getattr(Profile("x", **{o["name"]: vals[0]}), o["name"])
        except AldyException:
            return True, f"{o['name']}={vals[0]!r} rejected"
        return got != vals[0], f"{o['name']}={vals[0]!r} gives {got!r}"
    if k == "merge":
        mode = o["mode"]
        a = vals[0] if mode in ("both", "opt") else None
        b = vals[1] if mode in ("both", "par") else None
        eff = b if b is not None else a
        st, got = load_with(o["name"], a, b)
        if eff is None:
            return not (st == "ok" and got is _P0[o["name"]]), "default changed"
        want = spec_bool(eff)
        if st == "rej":
            return want is not None, f"load(options={a!r}, params={b!r}) rejected"
        return got is not want, (f"load(options={a!r}, params={b!r}) gives "
                                 f"{o['name']}={got!r}, expected {want!r}")
    if k == "cli":
        p = vals[0]
        calls = cli_run(p)
        if calls is None:
            return False, "collides with a keyword of genotype()"
        if "=" not in p:
            return bool(calls), f"{p!r} has no '=' but genotype() was called"
        kk, vv = p.split("=", 1)
        kk = kk.replace("-", "_")
        if kk in FIXED_KW:
            return False, "reserved name"
        good = len(calls) == 1 and calls[0].get(kk) == vv
        return not good, f"--param {p!r}: genotype() received {calls!r}"
    if k == "written":
        from aldy.common import GRange

        try:
            d = Profile.get_sam_profile_data(
                "<illumina>", regions={("G", "e1", 0): GRange("1", 10, 20)},
                cn_region=GRange("1", 100, 200), genome="hg19",
                params={o["name"]: vals[0]})
        except AldyException:
            return (o["name"] in BOOLS and spec_bool(vals[0]) is not None), \
                f"profile command rejects {o['name']}={vals[0]!r}"
        opt = d.get("options", {})
        want = spec_bool(vals[0]) if o["name"] in BOOLS else vals[0]
        return opt != {o["name"]: want}, (f"profile command with {o['name']}={vals[0]!r} "
                                          f"writes options {opt!r}")
    if k == "unknown":
        try:
            d = Profile("x", **{o["name"]: vals[0]}).__dict__
        except AldyException:
            return True, "rejected"
        return d != _P0, "profile changed"
    return False, "?"
