"""
C10 -- reported solutions are the best candidates and are internally consistent.

The real genotype() (from the stage calls on) and the real estimate_minor wrapper run on
stage stubs that return 1-3 structure / 1-3 major / 1-2 minor solution objects with
*symbolic scores*; every comparison in the sorting / filtering code forks the path and
z3 proves on each path that the returned list is exactly the set of candidates whose
combined score is within gap + precision of the best, in non-decreasing order, with the
score carry-over of the property, and that each returned object is the chain it was
derived from.
"""
import time
import itertools
import z3

import symx
import genoharness
from symx import S, Engine
from vcommon import new_result, ob
from aldy.common import AldyException, SOLUTION_PRECISION

PROPERTY = "C10"
LEVEL = "model_checking"
FUNCTIONS = ["aldy.genotype.genotype (lines 222-335, error paths 243-246/267-270/317-326)",
             "aldy.minor.estimate_minor (lines 89-110)",
             "aldy.solutions.{CNSolution,MajorSolution,MinorSolution} constructors"]
STUBS = [
    "sam.detect_genome, sam.Sample, Profile.load, cn.estimate_cn, major.estimate_major, "
    "minor.solve_minor_model, minor._print_candidates -> stubs returning solution objects "
    "with symbolic scores; int()/min() shadowed in aldy.genotype / aldy.minor",
]
OUTSIDE = ["more than 6 candidates; what the stages return (C02-C04); printing/report text",
           "chain consistency of the stage outputs themselves is C02/C04/C11"]
ASSUMPTIONS = ["major/minor scores are non-negative reals (<= 50); structure scores "
               "are concrete vectors (listed in bounds)"]
PLANS = {
    "2cn": {"cn": [["1", "1"], ["1", "1", "1"]],
            "major": {0: [{"1": 2}, {"1": 1, "2": 1}], 1: [{"1": 3}]},
            "minor": {(0, 0): 1, (0, 1): 1, (1, 0): 1}},
    "2minor": {"cn": [["1", "1"]],
               "major": {0: [{"1": 2}, {"1": 1, "3": 1}]},
               "minor": {(0, 0): 2, (0, 1): 2}},
    "1each": {"cn": [["1", "1"]], "major": {0: [{"1": 2}]}, "minor": {(0, 0): 1}},
    "3cn": {"cn": [["1", "1"], ["1", "1", "1"], ["1", "4"]],
            "major": {0: [{"1": 2}], 1: [{"1": 3}], 2: [{"1": 1, "4#1": 1}]},
            "minor": {(0, 0): 1, (1, 0): 1, (2, 0): 1}},
    "nocn": {"cn": [], "major": {}, "minor": {}},
    "nomajor": {"cn": [["1", "1"]], "major": {0: []}, "minor": {}},
    "nominor": {"cn": [["1", "1"]], "major": {0: [{"1": 2}]}, "minor": {(0, 0): 0}},
    "partial": {"cn": [["1", "1"], ["1", "1", "1"]],
                "major": {0: [{"1": 2}], 1: []}, "minor": {(0, 0): 1}},
}


def BOUNDS(tier):
    return ["plans: " + ", ".join(sorted(PLANS if tier == "thorough" else
                                         [p for p in PLANS if p != "3cn"])),
            "major and minor scores symbolic reals in [0,50]; structure scores from "
            "{(0.5,1.25,0.75), (1.5,0.25,3.0), (0.4,0.4,0.4)}; gap in {0, 0.1, 0.3}"
            + (", 0.05, 0.5, 1.0 (a symbolic gap multiplies symbolic scores: non-linear, "
               "z3 did not finish in 40 min)" if tier == "thorough" else ""),
            "output modes: none, simple"]


def configs(tier):
    c = []
    gaps = ["0", "0.1", "0.3"] + (["0.05", "0.5", "1.0"] if tier == "thorough" else [])
    for p in PLANS:
        if p == "3cn" and tier != "thorough":
            continue
        for g in (gaps if p in ("2cn", "2minor", "3cn") else ["0.1"]):
            for simple in ((False, True) if p.startswith("no") else (False,)):
                n = len(PLANS[p]["cn"])
                vecs = [[0.5, 1.25, 0.75][:n]]
                if n > 1 and p in ("2cn", "3cn"):
                    vecs += [[1.5, 0.25, 3.0][:n], [0.4, 0.4, 0.4][:n]]
                for v in vecs:
                    c.append({"plan": p, "gap": g, "simple": simple, "cnscores": v})
    # chain consistency of what the minor stage hands back when it reports more than one
    # refinement per candidate: the real read-out loop on two enumerated points (shared
    # with C04)
    c.append({"gene": "toy", "genome": "hg19", "cn": ["1", "1"], "major": {"1": 2},
              "mode": "readout2", "phase": None})
    return c


def zmin(terms):
    r = terms[0]
    for t in terms[1:]:
        r = z3.If(t < r, t, r)
    return r


def run_config(cfg):
    if cfg.get("mode") == "readout2":
        import c04
        return c04.run_config(cfg)
    res = new_result(cfg)
    plan = PLANS[cfg["plan"]]
    eng = Engine(name="c10", timeout_ms=120000)
    # structure scores are concrete (the rescaling factor (a_i+1)/(min a+1) multiplies a
    # symbolic score: with symbolic a_i every branch query is non-linear and z3 does not
    # finish); major and minor scores are symbolic
    A = {i: symx.q(cfg["cnscores"][i]) for i in range(len(plan["cn"]))}
    B = {(i, j): z3.Real(f"b{i}_{j}") for i, l in plan["major"].items()
         for j in range(len(l))}
    C = {k + (n,): z3.Real(f"c{k[0]}_{k[1]}_{n}") for k, cnt in plan["minor"].items()
         for n in range(cnt)}
    base = [z3.And(v >= 0, v <= 50) for v in list(B.values()) + list(C.values())]
    if cfg["gap"] == "sym":
        gz = z3.Real("gap")
        base += [gz >= 0, gz <= z3.Q(1, 2)]
        gap = S(gz)
    else:
        gap = float(cfg["gap"])
        gz = symx.q(gap)
    prec = symx.q(SOLUTION_PRECISION)

    def score(kind, idx):
        if kind == "cn":
            return float(cfg["cnscores"][idx])
        return S({"major": B, "minor": C}[kind][idx])

    state = {}

    def run():
        h = genoharness.Harness(plan, score)
        state["h"] = h
        out = genoharness.Out("x.simple") if cfg["simple"] else None
        state["out"] = out
        try:
            r = h.run(gap=gap, output=out, is_simple=cfg["simple"])
            return "ok", r
        except AldyException as e:
            return "raise", str(e)

    tag = f"{cfg['plan']}/gap={cfg['gap']}"
    # ---- specification of the combined score
    spec = {}
    if A:
        mina = zmin(list(A.values()))
        Bp = {k: B[k] + (A[k[0]] - mina) for k in B}
        if Bp:
            minb = zmin(list(Bp.values()))
            keptM = {k: Bp[k] - minb - gz < prec for k in Bp}
            for k in C:
                cp = C[k] + (Bp[k[:2]] - minb)
                # the rescaling factor is a quotient of concrete floats: the same float the
                # code computes (7/6 is not a float; an exact 7/6 here was a false alarm)
                fmin = min(float(x) for x in cfg["cnscores"][:len(plan["cn"])])
                fac = symx.q((float(cfg["cnscores"][k[0]]) + 1) / (fmin + 1))
                spec[k] = (cp * fac, keptM[k[:2]])
    big = z3.RealVal(10 ** 6)
    minf = zmin([z3.If(km, f, big) for f, km in spec.values()]) if spec else None
    npaths = 0
    for dec, pc, (st, r) in eng.explore(run, base, max_paths=200000):
        npaths += 1
        h = state["h"]
        any_cand = z3.Or([km for _, km in spec.values()]) if spec else z3.BoolVal(False)
        if st == "raise":
            # an empty stage: no candidate can exist
            t0 = time.time()
            s_, mdl = eng.prove([], z3.Not(any_cand))
            ob(res, f"{tag}: error only when some stage produced nothing", s_,
               time.time() - t0)
            if s_ == "sat":
                cex(res, cfg, mdl, A, B, C, gz, "genotype() raised although a candidate exists")
            if cfg["simple"]:
                good = state["out"].buf.getvalue().endswith("\n") and \
                    state["out"].buf.getvalue().count("\n") == 1
                ob(res, f"{tag}: simple output gets an empty result line on error",
                   "holds" if good else "sat")
                if not good:
                    res["violations"].append({
                        "what": f"plan {cfg['plan']}: simple output on error is "
                                f"{state['out'].buf.getvalue()!r}", "key": "simple",
                        "replay": {"plan": cfg["plan"], "gap": 0.1, "simple": True,
                                   "scores": {}}})
            continue
        sols = list(r.values())[0]
        # identify each returned object with the candidate it was derived from
        ids = []
        okchain = True
        for n in sols:
            found = None
            for key, lst in h.records["minor"].items():
                for m in lst:
                    if m.solution is n.solution:
                        found = m
            if found is None:
                okchain = False
                continue
            i, j, k = found._vid
            ids.append(found._vid)
            maj = n.major_solution
            okchain &= (maj.solution is h.records["major"][i][j].solution
                        and maj.cn_solution is h.records["cn"][i]
                        and n.get_diplotype() == found.get_diplotype()
                        and len(set(map(id, n.solution))) == len(n.solution))
        ob(res, f"{tag}: every reported solution is the chain it was derived from "
                "(minor -> major -> structure objects, same diplotype)",
           "holds" if okchain else "sat")
        if not okchain:
            res["violations"].append({"what": f"plan {cfg['plan']}: reported solution is "
                                              "not a consistent chain", "key": "chain",
                                      "replay": {"plan": cfg["plan"], "gap": 0.1,
                                                 "simple": False, "scores": {}}})
            continue
        goals = []
        for key, (f, km) in spec.items():
            kept = z3.And(km, f - minf - gz < prec)
            goals.append(z3.BoolVal(key in ids) == kept)
        for n, key in zip(sols, ids):
            goals.append(symx.tz(n.score) == spec[key][0])
        t0 = time.time()
        s_, mdl = eng.prove([], z3.And(goals + [z3.BoolVal(len(set(ids)) == len(ids))]))
        ob(res, f"{tag}: reported = exactly the candidates within gap+precision of the "
                "best combined score, with the carried-over scores", s_, time.time() - t0)
        if s_ == "sat":
            cex(res, cfg, mdl, A, B, C, gz, "reported set / scores differ from the "
                "specification")
        fl = lambda t: z3.ToInt(1000 * t)  # noqa  (scores are >= 0)
        order = z3.And([fl(symx.tz(sols[i].score)) <= fl(symx.tz(sols[i + 1].score))
                        for i in range(len(sols) - 1)] or [z3.BoolVal(True)])
        t0 = time.time()
        s_, mdl = eng.prove([], order)
        ob(res, f"{tag}: listed best first (non-decreasing int(1000*score))", s_,
           time.time() - t0)
        if s_ == "sat":
            cex(res, cfg, mdl, A, B, C, gz, "reported list is not sorted best first")
        if len(res["samples"]) < 2:
            res["samples"].append({"plan": cfg["plan"], "path": npaths,
                                   "reported": [list(i) for i in ids]})
    res["stats"] = {**dict(eng.stats), **res["stats"]}
    res["obligations"] = _collapse(res["obligations"])
    return res


def _collapse(obs):
    # many thousands of identical per-path entries: keep them (counts are measured) but
    # drop the per-entry timing to keep evidence small
    return [{"label": o["label"], "status": o["status"], "secs": 0} for o in obs]


def cex(res, cfg, mdl, A, B, C, gz, what):
    scores = {"cn": {str(k): float(cfg["cnscores"][k]) for k in A},
              "major": {str(k): float(symx.model_value(mdl, v)) for k, v in B.items()},
              "minor": {str(k): float(symx.model_value(mdl, v)) for k, v in C.items()}}
    rp = {"plan": cfg["plan"], "gap": float(symx.model_value(mdl, gz)),
          "simple": cfg["simple"], "scores": scores}
    okk, msg = replay(rp)
    res["stats"]["replays"] = res["stats"].get("replays", 0) + 1
    if okk:
        res["violations"].append({"what": f"plan {cfg['plan']}: {what}: {msg}",
                                  "key": "select", "replay": rp})
    else:
        res["inconclusive"].append(f"plan {cfg['plan']}: {what}: did not reproduce: {msg}")
        ob(res, f"UNREPRODUCED counterexample: {what}", "inconclusive")


def replay(o):
    """Concrete scores through the real genotype(); selection recomputed independently."""
    import ast

    if o.get("kind") == "none2":
        import c04
        return c04.replay(o)
    plan = PLANS[o["plan"]]
    sc = {k: {ast.literal_eval(i): v for i, v in d.items()}
          for k, d in o.get("scores", {}).items()}

    def score(kind, idx):
        return sc.get(kind, {}).get(idx, 1.0)

    h = genoharness.Harness(plan, score)
    out = genoharness.Out("x.simple") if o.get("simple") else None
    gap = o["gap"]
    try:
        r = h.run(gap=gap, output=out, is_simple=o.get("simple", False))
    except AldyException as e:
        cand = [k for k, n in plan["minor"].items() if n > 0]
        if cand:
            return True, f"genotype() raised {e} although candidates exist"
        if o.get("simple") and out.buf.getvalue().count("\n") != 1:
            return True, f"simple output on error: {out.buf.getvalue()!r}"
        return False, "raised as specified"
    sols = list(r.values())[0]
    A = {i: score("cn", i) for i in range(len(plan["cn"]))}
    mina = min(A.values())
    Bp = {(i, j): score("major", (i, j)) + A[i] - mina
          for i, l in plan["major"].items() for j in range(len(l))}
    minb = min(Bp.values())
    keptM = {k for k, v in Bp.items() if v - minb - gap < SOLUTION_PRECISION}
    F = {}
    for k, cnt in plan["minor"].items():
        if k not in keptM:
            continue
        for n in range(cnt):
            F[k + (n,)] = (score("minor", k + (n,)) + Bp[k] - minb) * (A[k[0]] + 1) / (mina + 1)
    best = min(F.values())
    want = {k for k, v in F.items() if v - best - gap < SOLUTION_PRECISION}
    # borderline values are not decidable in floating point: skip them
    if any(abs(v - best - gap - SOLUTION_PRECISION) < 1e-9 for v in F.values()) or \
            any(abs(v - minb - gap - SOLUTION_PRECISION) < 1e-9 for v in Bp.values()):
        return False, "borderline"
    got = []
    for n in sols:
        for key, lst in h.records["minor"].items():
            for m in lst:
                if m.solution is n.solution:
                    got.append(m._vid)
    msg = []
    if set(got) != want or len(got) != len(set(got)):
        msg.append(f"reported {sorted(got)} but within-gap candidates are {sorted(want)}")
    for n, key in zip(sols, got):
        if key in F and abs(n.score - F[key]) > 1e-9:
            msg.append(f"score of {key} is {n.score}, carried-over score is {F[key]}")
    if any(int(1000 * sols[i].score) > int(1000 * sols[i + 1].score)
           for i in range(len(sols) - 1)):
        msg.append(f"not sorted: {[s.score for s in sols]}")
    return bool(msg), "; ".join(msg) + f" [scores {o.get('scores')} gap {gap}]"
