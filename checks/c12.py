"""
C12 -- result files state exactly the reported solutions.

The real write_decomposition / write_vcf write into memory for 1-2 solutions of 1-3 allele
copies whose minor alleles are chosen symbolically (z3 integers over the gene's minor
alleles), each copy optionally with one added and one lost variant (z3 booleans).  The
engine concretises the choice path by path (solver-driven exhaustive exploration of a
finite space); on each path the files are parsed back by independent parsers and compared
with the solutions: decomposition rows = definition + added - lost per copy (one empty row
for copies without variants); VCF: one column per solution, GT/MA/MI per copy, POS one
based, REF/ALT spelling the variant against the reference.
"""
import io
import itertools
import collections
import z3

import symx
import gengene
import stagelib
from symx import Engine
from vcommon import new_result, ob
from aldy.solutions import CNSolution, MajorSolution, MinorSolution, SolvedAllele
from aldy.diplotype import estimate_diplotype, write_decomposition, write_vcf, OUTPUT_COLS
from aldy.profile import Profile
from aldy.gene import Mutation

PROPERTY = "C12"
LEVEL = "exploration"
FUNCTIONS = ["aldy.diplotype.write_decomposition", "aldy.diplotype.write_vcf",
             "aldy.genotype.genotype (output-kind dispatch, lines 193-205 and 344-368)"]
STUBS = ["output file -> io.StringIO; coverage -> real Coverage with 7 reads per variant"]
OUTSIDE = ["more than 2 solutions x 3 copies; the report/log text of genotype()"]
ASSUMPTIONS = ["every path ends concrete: exhaustive within the bounds, not beyond"]
RULE = ("cases = (solutions x copies x minor allele choice x added/lost flags), enumerated "
        "by the solver; non-trivial = at least one variant row; distinct = distinct cases")


def BOUNDS(tier):
    return ["genes toy, GA (insertion, deletion, MNP alleles), both builds in thorough",
            "1-2 solutions x 1-" + ("3" if tier == "thorough" else "2")
            + " copies, and two solutions with 2+1 / 1+2" + (" / 3+2" if tier == "thorough"
                                                            else "") + " copies; minor alleles symbolic over all minor alleles of the gene; one "
            "added (catalogued, not in the allele) and one lost variant per copy optional"]


def configs(tier):
    c = [{"kind": "dispatch"}]
    for g in ("toy", "GA"):
        for genome in (("hg19", "hg38") if tier == "thorough" else ("hg19",)):
            for nsol in (1, 2):
                for k in ((1, 2, 3) if tier == "thorough" else (1, 2)):
                    if nsol == 2 and k == 3:
                        continue
                    c.append({"gene": g, "genome": genome, "nsol": nsol, "k": k})
            # solutions with different numbers of copies (tied gene structures)
            for ks in ([[2, 1], [1, 2]] + ([[3, 2]] if tier == "thorough" else [])):
                c.append({"gene": g, "genome": genome, "nsol": 2, "k": max(ks), "ks": ks})
    return c


def _known_keys():
    import vcommon
    return set(vcommon.load_known().get(PROPERTY, {}))


KNOWN_KEYS = _known_keys()


def minors(gene):
    """a slice of <= 8 minor alleles: with and without neutral variants, fused, indels."""
    al = [(a, mi) for a in sorted(gene.alleles) for mi in sorted(gene.alleles[a].minors)]
    al.sort(key=lambda x: (-len(gene.alleles[x[0]].minors[x[1]].neutral_muts),
                           -len(gene.alleles[x[0]].func_muts), x))
    keep = al[:4] + [x for x in al[4:] if any(
        m.op[:3] in ("ins", "del") or len(m.op) > 3 for m in gene.alleles[x[0]].func_muts)]
    keep += [x for x in al if x not in keep]
    return sorted(keep[:8])


def carried(gene, sa):
    s = set(gene.alleles[sa.major].func_muts) | \
        set(gene.alleles[sa.major].minors[sa.minor].neutral_muts)
    return (s | set(sa.added)) - set(sa.missing)


def make_solution(gene, picks):
    """picks: list of (major, minor, add?, lose?)"""
    allm = sorted(Mutation(*m) for m in gene.mutations)
    sols = []
    for a, mi, ad, lo in picks:
        d = set(gene.alleles[a].func_muts) | set(gene.alleles[a].minors[mi].neutral_muts)
        added = [next(m for m in allm if m not in d)] if ad else []
        neutral = sorted(gene.alleles[a].minors[mi].neutral_muts)
        missing = [neutral[0]] if (lo and neutral) else []
        sols.append(SolvedAllele(gene, a, mi, added, missing))
    cn = CNSolution(gene, 0, [gene.alleles[a].cn_config for a, *_ in picks])
    ms = MajorSolution(0, collections.Counter(SolvedAllele(gene, a) for a, *_ in picks),
                       cn, [])
    sol = MinorSolution(0, sols, ms, profile=Profile("w"))
    estimate_diplotype(gene, sol)
    return sol


def coverage_for(gene):
    counts = {Mutation(*m): 7 for m in gene.mutations}
    return stagelib.concrete_coverage(gene, Profile("w"), counts)


def check_files(gene, sols, cov):
    probs = []
    # ---------------- decomposition
    for sid, sol in enumerate(sols, 1):
        f = io.StringIO()
        write_decomposition("S", gene, cov, sid, sol, f)
        rows = [l.split("\t") for l in f.getvalue().splitlines()]
        per = collections.defaultdict(set)
        empties = collections.Counter()
        for r in rows:
            if len(r) == len(OUTPUT_COLS) - 1:
                r = r + [""]  # variant rows carry no trailing Status field
            if len(r) != len(OUTPUT_COLS):
                probs.append(f"decomposition row has {len(r)} columns: {r}")
                continue
            d = dict(zip(OUTPUT_COLS, r))
            if d["Sample"] != "S" or d["Gene"] != gene.name or d["SolutionID"] != str(sid):
                probs.append(f"wrong sample/gene/solution id in {r[:3]}")
            if d["Major"] != sol.get_major_diplotype().replace(" ", ""):
                probs.append(f"diplotype column {d['Major']!r}")
            if d["Minor"] != ";".join(a.minor for a in sol.solution):
                probs.append(f"allele list column {d['Minor']!r}")
            ci = int(d["Copy"])
            if d["Allele"] != sol.solution[ci].minor:
                probs.append(f"copy {ci} named {d['Allele']}, is {sol.solution[ci].minor}")
            if d["Location"] == "":
                empties[ci] += 1
            else:
                m = Mutation(int(d["Location"]), d["Type"])
                per[ci].add(m)
                if d["Coverage"] != str(cov[m]):
                    probs.append(f"read support of {m} printed {d['Coverage']}")
                fn = gene.get_functional(m, False)
                if d["Effect"] != (fn if fn else "none"):
                    probs.append(f"effect of {m} printed {d['Effect']!r}")
                if d["dbSNP"] != gene.get_rsid(m, default=False):
                    probs.append(f"dbSNP of {m} printed {d['dbSNP']!r}")
        for ci, sa in enumerate(sol.solution):
            want = carried(gene, sa)
            if per.get(ci, set()) != want:
                probs.append(f"solution {sid} copy {ci} ({sa}): file lists "
                             f"{sorted(map(str, per.get(ci, set())))}, carries "
                             f"{sorted(map(str, want))}")
            if (empties[ci] == 1) != (not want) or empties[ci] > 1:
                probs.append(f"copy {ci}: {empties[ci]} empty rows for {len(want)} variants")
    # ---------------- VCF
    f = io.StringIO()
    try:
        write_vcf("S", gene, cov, sols, f)
    except Exception as e:  # noqa
        probs.append(f"[RAISED] write_vcf raised {type(e).__name__}: {e}")
        return probs
    lines = f.getvalue().splitlines()
    hdr = [l for l in lines if l.startswith("#CHROM")]
    if len(hdr) != 1:
        probs.append("VCF header line missing")
        return probs
    cols = hdr[0].split("\t")
    if len(cols) != 9 + len(sols):
        probs.append(f"{len(cols) - 9} sample columns for {len(sols)} solutions")
    seen = {}
    for l in lines:
        if l.startswith("#"):
            continue
        r = l.split("\t")
        pos = int(r[1]) - 1
        ref, alt = r[3], r[4]
        cand = [m for m in (Mutation(*x) for x in gene.mutations) if m.pos == pos
                and spells(gene, m, ref, alt, strict=False)]
        if not cand:
            probs.append(f"VCF row {r[:5]} corresponds to no catalogued variant at {pos}")
            continue
        # identify by ID/REF/ALT among the variants at this position
        m = next((x for x in cand if spells(gene, x, ref, alt, strict=True)), None)
        if m is None:
            # the recorded rendering defect of write_vcf (diplotype.py:157-163): insertions
            # get REF 'i', everything that is neither a substitution nor an insertion gets
            # REF '.' and ALT '<op[3:]>, .'; any other mis-spelling is a new deviation
            def known_render(x):
                if x.op.startswith("ins"):
                    return x.op[0], x.op[0] + x.op[3:]
                return ".", f"{x.op[3:]}, ."

            m = next((x for x in cand if known_render(x) == (ref, alt)
                      and not (len(x.op) == 3 and x.op[1] == ">")), None)
            if m is None:
                m = cand[0]
                kind = "new"
            else:
                kind = ("ins" if m.op.startswith("ins") else "delins" if "ins" in m.op else
                        "del" if m.op.startswith("del") else "mnp")
            probs.append(f"[REFALT-{kind}] VCF REF/ALT {ref}>{alt} at {pos + 1} do not "
                         f"spell {m} against the reference ({gene[pos]})")
        seen.setdefault(m, []).append(r)
        fmt = r[8].split(":")
        for si, sol in enumerate(sols):
            d = dict(zip(fmt, r[9 + si].split(":")))
            gt = d["GT"].split("|")
            wantgt = ["1" if m in carried(gene, sa) else "0" for sa in sol.solution]
            # what the two recorded defects of write_vcf (lost variants not subtracted, one
            # table shared by all columns) produce; anything else is a new deviation
            knowngt = ["1" if any(ci < len(o_.solution) and m in (
                carried(gene, o_.solution[ci]) | set(o_.solution[ci].missing))
                for o_ in sols) else "0" for ci in range(len(sol.solution))]
            if gt != wantgt and gt != knowngt:
                probs.append(f"[GT-new] VCF {m}: column {si} GT {d['GT']} but copies "
                             f"carrying it in that solution are {'|'.join(wantgt)}")
            elif gt != wantgt:
                why = "other"
                for ci, (g_, w_) in enumerate(zip(gt, wantgt)):
                    if g_ != w_:
                        if m in sol.solution[ci].missing:
                            why = "lost"
                        elif any(ci < len(o_.solution) and m in carried(gene, o_.solution[ci])
                                 for o_ in sols if o_ is not sol):
                            why = "shared"
                probs.append(f"[GT-{why}] VCF {m}: column {si} GT {d['GT']} but copies "
                             f"carrying it in that solution are {'|'.join(wantgt)}")
            ma = d["MA"].split(",")
            mi_ = d["MI"].split(",")
            wma = [f"*{sa.major}" if g_ == "1" else "-" for sa, g_ in zip(sol.solution, wantgt)]
            wmi = [f"*{sa.minor}" if g_ == "1" else "-" for sa, g_ in zip(sol.solution, wantgt)]
            if (ma != wma or mi_ != wmi) and gt == wantgt:
                probs.append(f"VCF {m}: column {si} MA/MI {d['MA']} {d['MI']}, expected "
                             f"{','.join(wma)} {','.join(wmi)}")
    every = set()
    for sol in sols:
        for sa in sol.solution:
            every |= carried(gene, sa)
    missing_rows = [str(m) for m in every if m not in seen]
    if missing_rows:
        probs.append(f"VCF has no row for carried variants {missing_rows}")
    return probs


def spells(gene, m, ref, alt, strict):
    """does REF/ALT at m.pos (one record, left anchored or not) denote variant m?"""
    if not strict:
        return True
    op = m.op
    if ">" in op and len(op) == 3:
        # (that the catalogued reference letter equals the reference is C08's corpus part)
        return ref == op[0] and alt == op[2]
    if op.startswith("ins"):
        # anchored at the base the insertion follows
        return ref == gene[m.pos] and alt == ref + op[3:]
    if op.startswith("del") and "ins" not in op:
        d = op[3:]
        return (ref == d and alt in ("", ".", "-", "*")) or \
               (len(ref) == len(d) + 1 and ref[1:] == d and alt == ref[0])
    if ">" in op:
        l, r = op.split(">")
        return len(ref) == len(l) and all(a == "." or a == b for a, b in zip(l, ref)) and \
            all(a == "." or a == b for a, b in zip(r, alt))
    return True


def run_dispatch(cfg):
    """genotype()'s output-kind dispatch and headers (genotype.py:193-205,344-368) under
    the stage stubs of the C10/C19 harness: which writer runs for which file name, how
    many times, and the one-line simple format.  The number of reported solutions (1 or
    2) is decided by a symbolic minor score."""
    import genoharness
    from symx import S
    from aldy.common import AldyException

    res = new_result(cfg)
    eng = Engine(name="c12d")
    plan = {"cn": [["1", "1"]], "major": {0: [{"1": 2}, {"1": 1, "3": 1}]},
            "minor": {(0, 0): 1, (0, 1): 1}}
    x = z3.Real("second_minor_score")
    base = [x >= 0, x <= 5]

    def score(kind, idx):
        if kind == "minor" and idx == (0, 1, 0):
            return S(x)
        return 1.0

    for ext in ("aldy", "vcf", "simple", "flag"):
        def run():
            h = genoharness.Harness(plan, score)
            out = genoharness.Out("r." + ("aldy" if ext == "flag" else ext))
            r = h.run(gap=0.1, output=out, is_simple=(ext == "flag"))
            return list(r.values())[0], out.buf.getvalue()

        for dec, pc, (sols, txt) in eng.explore(run, base):
            lines = txt.splitlines()
            n = len(sols)
            probs = []
            if ext == "aldy":
                hdr = [l for l in lines if l.startswith("#Sample")]
                sl = [l for l in lines if l.startswith("#Solution ")]
                rows = [l for l in lines if not l.startswith("#")]
                ids = sorted({l.split("\t")[2] for l in rows})
                if len(hdr) != 1 or lines[0] != "#" + "\t".join(OUTPUT_COLS):
                    probs.append("column header missing or repeated")
                if [l.split(":")[0] for l in sl] != [f"#Solution {i + 1}" for i in range(n)]:
                    probs.append(f"solution headers {sl}")
                if ids != [str(i + 1) for i in range(n)]:
                    probs.append(f"solution ids in rows {ids} for {n} solutions")
            elif ext == "vcf":
                hdr = [l for l in lines if l.startswith("#CHROM")]
                if len(hdr) != 1 or len(hdr[0].split("\t")) != 9 + n:
                    probs.append(f"VCF header columns for {n} solutions: {hdr}")
                if any(l.startswith("#Solution") for l in lines):
                    probs.append("decomposition written into a VCF")
            else:
                if len(lines) != 1 or not txt.endswith("\n"):
                    probs.append(f"simple output is not one line: {txt!r}")
                else:
                    f = lines[0].split("\t")
                    want = ["sample", "TOY"]
                    for s_ in sols:
                        want += [s_.get_major_diplotype().replace(" ", ""),
                                 s_.get_minor_diplotype(legacy=True).replace(" ", "")]
                    if [c_ for c_ in f if c_ != ""] != want:
                        probs.append(f"simple line {f} expected {want}")
            ob(res, f"dispatch/{ext}: the right writer, once, for {n} reported solution(s)",
               "holds" if not probs else "sat")
            for p_ in probs:
                res["violations"].append({
                    "what": f"output kind {ext} with {n} solutions: {p_}",
                    "key": f"dispatch-{ext}", "replay": {"kind": "dispatch"}})
    seen = {}
    for v in res["violations"]:
        seen.setdefault(v["key"], v)
    res["violations"] = list(seen.values())
    res["stats"] = dict(eng.stats)
    return res


def run_config(cfg):
    import copy

    if cfg.get("kind") == "dispatch":
        return run_dispatch(cfg)
    res = new_result(cfg)
    pristine = gengene.load(cfg["gene"], cfg["genome"])
    mins = minors(pristine)
    nsol, k = cfg["nsol"], cfg["k"]
    kcop = cfg.get("ks") or [k] * nsol
    eng = Engine(name="c12")
    idx = [[z3.Int(f"m{s}_{i}") for i in range(kcop[s])] for s in range(nsol)]
    ad = [[z3.Bool(f"a{s}_{i}") for i in range(kcop[s])] for s in range(nsol)]
    lo = [[z3.Bool(f"l{s}_{i}") for i in range(kcop[s])] for s in range(nsol)]
    base = []
    for s in range(nsol):
        base += [z3.And(x >= 0, x < len(mins)) for x in idx[s]]
        base += [idx[s][i] <= idx[s][i + 1] for i in range(kcop[s] - 1)]
        # flags only on the first copy of the first solution (bounds the space)
        for i in range(kcop[s]):
            if i or s:
                base += [z3.Not(ad[s][i]), z3.Not(lo[s][i])]
    tag = f"{cfg['gene']}/{cfg['genome']}/" + (
        "+".join(map(str, kcop)) + " copies" if cfg.get("ks") else f"{nsol}x{k}")

    def run():
        picks = []
        for s in range(nsol):
            p = []
            for i in range(kcop[s]):
                j = eng.choose(idx[s][i], range(len(mins)))
                p.append((mins[j][0], mins[j][1], eng.branch(ad[s][i]), eng.branch(lo[s][i])))
            picks.append(p)
        # a fresh copy of the database per case: a writer that edits the catalogue must
        # not leak into the next case (and is reported for this one)
        gene = copy.deepcopy(pristine)
        cov = coverage_for(gene)
        sols = [make_solution(gene, p) for p in picks]
        probs = check_files(gene, sols, cov)
        same = all(
            gene.alleles[a].func_muts == pristine.alleles[a].func_muts
            and {k: v.neutral_muts for k, v in gene.alleles[a].minors.items()}
            == {k: v.neutral_muts for k, v in pristine.alleles[a].minors.items()}
            for a in pristine.alleles)
        if not same:
            probs.append("[DBEDIT] a writer modified the gene database (allele "
                         "definitions differ from a fresh load afterwards)")
        return picks, probs

    ncase = 0
    for dec, pc, (picks, probs) in eng.explore(run, base, max_paths=400000):
        ncase += 1
        kinds = sorted({classify(p) for p in probs})
        asp = {"decomposition rows/columns": [], "VCF layout (columns, POS, rows)": [],
               "VCF genotypes (GT/MA/MI)": [], "VCF REF/ALT": []}
        for p_ in probs:
            k_ = classify(p_)
            if k_.startswith("vcf-gt") or k_ == "vcf-mami":
                asp["VCF genotypes (GT/MA/MI)"].append(k_)
            elif k_.startswith("vcf-refalt"):
                asp["VCF REF/ALT"].append(k_)
            elif k_ == "decomp-rows" or "decomposition" in p_ or "copy" in p_:
                asp["decomposition rows/columns"].append(k_)
            else:
                asp["VCF layout (columns, POS, rows)"].append(k_)
        for a_, ks in asp.items():
            st_ = "holds" if not ks else ("known-finding" if all(k in KNOWN_KEYS for k in ks)
                                          else "sat")
            ob(res, f"{tag}: {a_}", st_)
        for kd in kinds:
            msg = next(p for p in probs if classify(p) == kd)
            res["violations"].append({
                "what": f"{cfg['gene']}/{cfg['genome']} solutions {picks}: {msg}",
                "key": kd, "replay": {"gene": cfg["gene"], "genome": cfg["genome"],
                                      "picks": picks}})
        if len(res["samples"]) < 2:
            res["samples"].append({"picks": picks, "problems": probs[:2]})
    # keep one violation per kind
    seen = {}
    for v in res["violations"]:
        seen.setdefault(v["key"], v)
    res["violations"] = list(seen.values())
    res["stats"] = dict(eng.stats)
    res["stats"]["distinct_cases"] = ncase
    res["obligations"] = [{"label": o["label"], "status": o["status"], "secs": 0}
                          for o in res["obligations"]]
    return res


def classify(p):
    import re

    m = re.match(r"^\[([A-Za-z-]+)\]", p)
    if m:
        return "vcf-" + m.group(1).lower()
    if "MA/MI" in p:
        return "vcf-mami"
    if "file lists" in p or "empty rows" in p:
        return "decomp-rows"
    return "other:" + p[:24]


def replay(o):
    if o.get("kind") == "dispatch":
        r = run_dispatch({"kind": "dispatch"})
        return bool(r["violations"]), "; ".join(v["what"] for v in r["violations"][:2])
    gene = gengene.load(o["gene"], o["genome"])
    cov = coverage_for(gene)
    sols = [make_solution(gene, [tuple(x) for x in p]) for p in o["picks"]]
    probs = check_files(gene, sols, cov)
    return bool(probs), "; ".join(probs[:3])
