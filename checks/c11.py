"""
C11 -- the diplotype is a faithful arrangement of the called alleles.

The real estimate_diplotype / MinorSolution.get_major_name / get_major_diplotype run on
solutions whose allele choice is symbolic: copy i is allele number a_i of a slice of the
gene's catalogue (z3 integers, a_1 <= ... <= a_k), and each copy may carry a novel
functional variant (z3 booleans).  The engine concretises the choice path by path (every
path ends concrete: this is solver-driven exhaustive exploration of a finite space, and
is claimed as such), and on each path the postconditions of the property are evaluated:
partition of the copy indices, both haplotypes non-empty for >= 2 copies, deletion
placeholders, names, tandem adjacency for > 2 copies, natural order, and -- for one or
two copies -- independence of the order in which the alleles were produced.
"""
import re
import itertools
import collections
import z3
from natsort import natsorted

import symx
import gengene
from symx import Engine
from vcommon import new_result, ob
from aldy.solutions import CNSolution, MajorSolution, MinorSolution, SolvedAllele
from aldy.diplotype import estimate_diplotype
from aldy.gene import Mutation

PROPERTY = "C11"
LEVEL = "exploration"
FUNCTIONS = ["aldy.diplotype.estimate_diplotype", "aldy.solutions.MinorSolution."
             "{get_major_name,get_minor_name,get_major_diplotype,get_minor_diplotype}"]
STUBS = ["none (solution objects are built directly from catalogue alleles)"]
OUTSIDE = ["more than 4 copies (5 in thorough, 6 for the toy gene); allele slices are 8 "
           "alleles per gene (tandem partners, fused alleles and the deletion allele "
           "included)"]
ASSUMPTIONS = ["every path ends concrete: exhaustive within the bounds, not beyond"]
RULE = ("cases = multisets of k alleles (symbolic indices, enumerated by the solver) x "
        "novel-variant flags; non-trivial = at least 2 copies or a deletion placeholder; "
        "distinct = distinct (gene, multiset, flags)")
EXHAUSTIVE = True


def BOUNDS(tier):
    return ["genes: toy, GA, GB, GD (first 8 alleles), cyp2d6 slice (1,2,4,10,13,36,68,5)"
            + (", GC, cyp2a6, cyp2c19, gstm1" if tier == "thorough" else ""),
            "copies k in 0.." + ("5 (toy: 6)" if tier == "thorough" else "4"),
            "one novel functional variant may be added to any copy"]


SLICES = {
    "toy": None,
    "GA": None,
    "cyp2d6": ["1", "2", "4", "10", "13", "36", "68", "5"],
    "cyp2a6": None,
    "cyp2c19": None,
    "gstm1": None,
}


def configs(tier):
    c = []
    # GB / GC / GD have no tandem table (a different branch of the heuristic)
    genes = ["toy", "GA", "GB", "GD", "cyp2d6"] + (["GC", "cyp2a6", "cyp2c19", "gstm1"]
                                                   if tier == "thorough" else [])
    for g in genes:
        kmax = (5 if tier == "thorough" else 4) + (1 if g == "toy" and tier == "thorough" else 0)
        for k in range(0, kmax + 1):
            c.append({"gene": g, "k": k})
    return c


def slice_of(gene, name):
    if SLICES.get(name):
        return [a for a in SLICES[name] if a in gene.alleles]
    al = natsorted(gene.alleles)
    return al[:8]


def real_name(a):
    n = str(a).split("#")[0]
    comp = re.split(r"(\d+)", n)
    return comp[0] if comp[0] != "" else comp[1]


def novel_variant(gene):
    """a functional variant that is in the catalogue (so that it has a display name)."""
    for (pos, op), info in sorted(gene.mutations.items()):
        if gene.is_functional((pos, op), infer=False):
            return Mutation(pos, op)
    return None


def build(gene, names, flags, nov):
    cn = CNSolution(gene, 0, [gene.alleles[a].cn_config for a in names])
    sols = []
    for a, f in zip(names, flags):
        mi = next(iter(gene.alleles[a].minors))
        added = [nov] if (f and nov is not None and nov not in gene.alleles[a].func_muts) \
            else []
        sols.append(SolvedAllele(gene, a, mi, added, []))
    ms = MajorSolution(0, collections.Counter(SolvedAllele(gene, a) for a in names), cn, [])
    return MinorSolution(0, sols, ms)


def check_solution(gene, names, flags, nov):
    """returns list of problems for one concrete case."""
    probs = []
    sol = build(gene, names, flags, nov)
    d = estimate_diplotype(gene, sol)
    k = len(names)
    flat = [i for h in d for i in h]
    real = [i for i in flat if i != -1]
    if sorted(real) != list(range(k)):
        probs.append(f"copies {sorted(real)} shown, called {list(range(k))}")
    dele = gene.deletion_allele()
    want_del = max(0, 2 - k) if dele else 0
    if flat.count(-1) != want_del:
        probs.append(f"{flat.count(-1)} deletion placeholders, expected {want_del}")
    if k >= 2 and (not d[0] or not d[1]):
        probs.append(f"a haplotype is empty: {d}")
    if len(d) != 2:
        probs.append(f"{len(d)} haplotypes")
    # names
    s = sol.get_major_diplotype()
    toks = [t.strip() for h in s.split(" / ") for t in h.split(" + ")] if s else []
    want = []
    for i in flat:
        if i == -1:
            want.append(f"*{dele}")
        else:
            a = sol.solution[i]
            n = [str(a.major).split("#")[0]]
            for m in sorted(a.added):
                if gene.is_functional(m, infer=False):
                    n.append(gene.get_rsid(m))
            want.append("*" + "+".join(n))
    if toks != want:
        probs.append(f"printed {toks}, expected {want}")
    # tandem adjacency for > 2 copies
    if k > 2:
        rn = {i: real_name(sol.solution[i].major) for i in range(k)}
        cnt = collections.Counter(rn.values())
        avail = dict(cnt)
        for ta, tb in gene.common_tandems:
            need = min(avail.get(ta, 0), avail.get(tb, 0)) if ta != tb else avail.get(ta, 0) // 2
            have = 0
            for h in d:
                for x, y in zip(h, h[1:]):
                    if x != -1 and y != -1 and rn[x] == ta and rn[y] == tb:
                        have += 1
            if have < need:
                probs.append(f"tandem {ta}+{tb}: {have} adjacent pairs, {need} possible "
                             f"in {[[rn.get(i, 'del') for i in h] for h in d]}")
            avail[ta] = avail.get(ta, 0) - need
            avail[tb] = avail.get(tb, 0) - need
    # natural order of haplotypes
    key = [[sol.get_major_name(i) for i in h] for h in d]
    if natsorted(key) != key:
        probs.append(f"haplotypes not in natural order: {key}")
    return probs, s


def run_config(cfg):
    res = new_result(cfg)
    gene = gengene.load(cfg["gene"], "hg19")
    sl = slice_of(gene, cfg["gene"])
    k = cfg["k"]
    nov = novel_variant(gene)
    eng = Engine(name="c11")
    a = [z3.Int(f"a{i}") for i in range(k)]
    f = [z3.Bool(f"f{i}") for i in range(k)]
    base = [z3.And(x >= 0, x < len(sl)) for x in a]
    base += [a[i] <= a[i + 1] for i in range(k - 1)]
    tag = f"{cfg['gene']}/k={k}"

    def run():
        idx = [eng.choose(x, range(len(sl))) for x in a]
        fl = [eng.branch(x) for x in f]
        names = [sl[i] for i in idx]
        probs, s = check_solution(gene, names, fl, nov)
        if k <= 2 and k > 0:
            for perm in itertools.permutations(range(k)):
                p2, s2 = check_solution(gene, [names[i] for i in perm],
                                        [fl[i] for i in perm], nov)
                if s2 != s:
                    probs.append(f"order dependent: {s!r} vs {s2!r}")
        return names, fl, probs, s

    cases = set()
    for dec, pc, (names, fl, probs, s) in eng.explore(run, base, max_paths=200000):
        cases.add((tuple(names), tuple(fl)))
        ob(res, f"{tag}: partition / placeholders / names / tandems / order",
           "holds" if not probs else "sat")
        if probs:
            res["violations"].append({
                "what": f"{cfg['gene']}: alleles {names} (novel flags {fl}) -> {s!r}: "
                        + "; ".join(probs[:2]),
                "key": f"diplotype:{cfg['gene']}:{probs[0].split(':')[0][:20]}",
                "replay": {"gene": cfg["gene"], "names": names, "flags": fl}})
        if len(res["samples"]) < 2:
            res["samples"].append({"alleles": names, "flags": fl, "diplotype": s})
    res["stats"] = dict(eng.stats)
    res["stats"]["distinct_cases"] = len(cases)
    res["obligations"] = [{"label": o["label"], "status": o["status"], "secs": 0}
                          for o in res["obligations"]]
    return res


def replay(o):
    gene = gengene.load(o["gene"], "hg19")
    probs, s = check_solution(gene, o["names"], o["flags"], novel_variant(gene))
    if len(o["names"]) in (1, 2):
        for perm in itertools.permutations(range(len(o["names"]))):
            _, s2 = check_solution(gene, [o["names"][i] for i in perm],
                                   [o["flags"][i] for i in perm], novel_variant(gene))
            if s2 != s:
                probs.append(f"order dependent: {s!r} vs {s2!r}")
    return bool(probs), f"{o['names']} -> {s!r}: " + "; ".join(probs[:3])
