"""
C09 -- the star-allele catalogue is a consistent, build-independent partition.

The real Gene.__init__ loads generated databases whose allele table is symbolic: K alleles,
each a subset of a 3-variant universe (substitution / substitution / insertion in three
exons), per-variant functional flags, and a structural kind per allele (normal, left
fusion, right fusion, whole-gene deletion, custom partial deletion); allele names and
labels come from three lists built to collide (9.001 vs 10.001: natural vs string order;
2.001, 2.002, 20.001 with labels 2, 2B, 20; 2.001, 20.001, 3.001).  The z3
variables are concretised path by path by the engine (solver-driven exhaustive
exploration) and on each path the invariants of the property are evaluated on the loaded
object for both builds (opposite strands) and the two loads are compared in RefSeq terms.
The same invariant function is run over the 38 shipped databases x 2 builds as a corpus.
"""
import copy
import collections
import yaml
import z3

import symx
import gengene
from symx import Engine
from vcommon import new_result, ob
from aldy.gene import Gene, CNConfigType, Mutation

PROPERTY = "C09"
LEVEL = "exploration"
FUNCTIONS = ["aldy.gene.Gene.__init__", "aldy.gene.Gene._init_alleles",
             "aldy.gene.Gene._init_partials", "aldy.gene.Gene.{get_allele,has_coverage,"
             "is_functional,deletion_allele}"]
STUBS = ["none (the database is handed over as YAML text)"]
OUTSIDE = ["more than 3 generated alleles besides *1, more than 3 variants; databases with "
           "several deletion alleles or a fusion and a custom deletion of the same shape"]
ASSUMPTIONS = ["every path ends concrete: exhaustive within the bounds, not beyond"]
RULE = ("cases = allele tables (subset masks x kinds x functional flags), enumerated by the "
        "solver; non-trivial = at least one non-empty allele; distinct = distinct table")
NAMESETS = [
    [("9.001", "9"), ("10.001", "10"), ("2.001", "2")],      # natural vs string order
    [("2.001", "2"), ("2.002", "2B"), ("20.001", "20")],     # same prefix, labels
    [("2.001", "2"), ("20.001", None), ("3.001", None)],     # prefix of another name
    [("7.001", "7"), ("7.002", "7"), ("7.003", "7")],        # three groups on one label
]
NAMES = NAMESETS[1]
KINDS = ["normal", "left", "right", "custom", "deletion", "custom2"]
CUSTOM = {"custom": ["e2", "i2"], "custom2": ["e1", "i1"]}  # deleted regions (equal size)
UNIVERSE = [(15, "SNP2"), (50, "SNP4"), (80, "INS1")]


def BOUNDS(tier):
    return ["generated: base gene GA (pseudogene, +/- strands), K=" +
            ("3 (third allele restricted to normal/left fusion over two variants)"
             if tier == "thorough" else "2") + " symbolic alleles over a 3-variant "
            "universe, 5 structural kinds, functional flags symbolic; plus 3 normal alleles "
            "sharing one shown name (all 8^3 variant subsets)",
            "corpus: all 38 shipped databases x {hg19, hg38}"]


def configs(tier):
    c = []
    K = 3 if tier == "thorough" else 2
    # partition by the kind of the first allele (parallelism)
    for k0 in range(len(KINDS)):
        for ns in (range(3) if KINDS[k0] != "custom2" else (1,)):
            c.append({"kind": "gen", "K": K, "first": k0, "names": ns})
    # three alleles that collide on one shown name (renaming :2, :3), normal structures
    c.append({"kind": "gen", "K": 3, "first": 0, "names": 3, "normal_only": True})
    # two left fusions with one break point (one structure) next to a normal allele
    c.append({"kind": "gen", "K": 3, "first": 1, "names": 0, "kinds": [1, 1, 0]})
    c.append({"kind": "gen", "K": 3, "first": 1, "names": 1, "kinds": [1, 1, 0]})
    ship = [g for g in gengene.shipped_genes() if not g.startswith("pharma")]
    for i in range(4):
        c.append({"kind": "corpus", "genes": ship[i::4]})
    # fixed generated databases (opposite strands; variants on region boundaries)
    c.append({"kind": "corpus", "genes": ["GA", "GB", "GC", "GD", "toy"]})
    return c


def _known_keys():
    import vcommon
    return set(vcommon.load_known().get(PROPERTY, {}))


KNOWN_KEYS = _known_keys()


def run_config(cfg):
    return globals()["run_" + cfg["kind"]](cfg)


def base_yaml():
    y = yaml.safe_load(gengene.gen_yaml("GA"))
    return y


def table_yaml(y0, table, flags, names=None):
    """table: list of (mask, kind) for alleles NAMES[j]; flags: functional per variant."""
    NAMES = names or NAMESETS[1]
    y = copy.deepcopy(y0)
    seq = y["reference"]["seq"]
    other = {"A": "C", "C": "G", "G": "T", "T": "A"}
    ops = []
    for (pos, sym), fl in zip(UNIVERSE, flags):
        b = seq[pos - 1]
        op = f"{b}>{other[b]}" if sym.startswith("SNP") else "ins" + other[b] + b
        ops.append([pos, op, f"rs{pos}"] + (["functional"] if fl else []))
    al = {"GA*1.001": {"label": "GA*1", "mutations": []}}
    for (name, label), (mask, kind) in zip(NAMES, table):
        muts = [copy.deepcopy(ops[i]) for i in range(3) if mask & (1 << i)]
        if kind == "left":
            muts = [["GAP", "i1-"]] + muts
        elif kind == "right":
            muts = [["GAP", "e3+"]] + muts
        elif kind in CUSTOM:
            muts = [["GA", "deletion:" + ",".join(CUSTOM[kind])]] + muts
        elif kind == "deletion":
            muts = [["GA", "deletion"]]
        d = {"mutations": muts}
        if label:
            d["label"] = "GA*" + label
        al["GA*" + name] = d
    y["alleles"] = al
    y["structure"].pop("tandems", None)
    return yaml.safe_dump(y, sort_keys=False)


def refseq_sets(gene, muts):
    return frozenset((gene.mutations[m][3], gene.mutations[m][4]) for m in muts)


def invariants(gene, db_alleles=None):
    """the property's catalogue invariants on a loaded gene; returns list of (key, msg)."""
    probs = []
    # every allele's configuration exists; configurations list their alleles
    for an, a in gene.alleles.items():
        if a.cn_config not in gene.cn_configs:
            probs.append(("config-missing", f"allele {an} has unknown configuration "
                                            f"{a.cn_config}"))
        elif an not in gene.cn_configs[a.cn_config].alleles:
            probs.append(("config-list", f"allele {an} not listed under its configuration"))
    # core = function altering, minor-only = silent
    for an, a in gene.alleles.items():
        for m in a.func_muts:
            if not gene.is_functional(m):
                probs.append(("core-silent", f"{an}: core variant {m} is not functional"))
        for mi, mn in a.minors.items():
            for m in mn.neutral_muts:
                if gene.is_functional(m):
                    probs.append(("minor-functional", f"{mi}: minor-only variant {m} is "
                                                      "functional"))
    # distinct major alleles differ in (structure, core set)
    seen = {}
    for an, a in gene.alleles.items():
        key = (a.cn_config, frozenset(a.func_muts))
        if key in seen:
            # a partial allele derived for a bare fusion that coincides with another
            # fusion allele of the same shape is a separate (known) mechanism
            kind_ = "major-duplicate-partial" if ("#" in an) != ("#" in seen[key]) \
                else "major-duplicate"
            probs.append((kind_, f"major alleles {seen[key]} and {an} have the "
                                 f"same structure and core variants"))
        seen[key] = an
    # minors of one major differ
    for an, a in gene.alleles.items():
        s2 = {}
        for mi, mn in a.minors.items():
            k = frozenset(mn.neutral_muts)
            if k in s2:
                probs.append(("minor-duplicate", f"minor alleles {s2[k]} and {mi} of {an} "
                                                 "have the same variants"))
            s2[k] = mi
    # fused candidates carry exactly the parent's variants in retained regions
    for an, a in gene.alleles.items():
        if "#" not in an:
            continue
        f, parent = an.split("#", 1)
        if parent not in gene.alleles or f not in gene.cn_configs:
            probs.append(("partial-parent", f"partial allele {an} has no parent/config"))
            continue
        keep = {m for m in gene.alleles[parent].func_muts
                if gene.region_at(m.pos)
                and gene.cn_configs[f].cn[gene.region_at(m.pos)[0]][gene.region_at(m.pos)[1]] > 0}
        if set(a.func_muts) != keep:
            probs.append(("partial-content", f"partial allele {an} carries "
                                             f"{sorted(map(str, a.func_muts))}, parent's "
                                             f"retained core variants are "
                                             f"{sorted(map(str, keep))}"))
    # the sub-alleles of a fused candidate carry exactly the silent variants of the
    # sub-allele they were derived from that lie in retained regions
    owner = {}
    for an, a in gene.alleles.items():
        if "#" not in an:
            for mk in a.minors:
                owner[mk] = an
    for an, a in gene.alleles.items():
        if "#" not in an:
            continue
        f = an.split("#", 1)[0]
        if f not in gene.cn_configs:
            continue
        for mk, mn in a.minors.items():
            src = mk.split("#", 1)[1] if "#" in mk else None
            if src is None or src not in owner:
                continue
            pm = gene.alleles[owner[src]].minors[src]
            keep = {m for m in pm.neutral_muts if gene.region_at(m.pos) and
                    gene.cn_configs[f].cn[gene.region_at(m.pos)[0]][gene.region_at(m.pos)[1]] > 0}
            if set(mn.neutral_muts) != keep:
                probs.append(("partial-minor-content",
                              f"sub-allele {mk} of fused candidate {an} carries "
                              f"{sorted(map(str, mn.neutral_muts))}, the retained silent "
                              f"variants of {src} are {sorted(map(str, keep))}"))
    # a bare left fusion (its own allele has no core variant) is a candidate together with
    # every normal allele's retained part: for each normal major allele some major allele
    # of the fused structure carries exactly its retained core variants
    from aldy.gene import CNConfigType
    normal = [an for an, a in gene.alleles.items() if "#" not in an and a.cn_config in
              gene.cn_configs and gene.cn_configs[a.cn_config].kind == CNConfigType.DEFAULT]
    for f, cfgf in gene.cn_configs.items():
        if cfgf.kind != CNConfigType.LEFT_FUSION or f not in gene.alleles \
                or gene.alleles[f].func_muts:
            continue
        have = {frozenset(a.func_muts) for a in gene.alleles.values() if a.cn_config == f}
        for pn in normal:
            keep = frozenset(
                m for m in gene.alleles[pn].func_muts if gene.region_at(m.pos)
                and cfgf.cn[gene.region_at(m.pos)[0]][gene.region_at(m.pos)[1]] > 0)
            if keep not in have:
                probs.append(("partial-missing", f"bare left fusion {f}: no candidate of "
                                                 f"that structure carries the retained core "
                                                 f"variants {sorted(map(str, keep))} of "
                                                 f"allele {pn}"))
    # reachability by name
    if db_alleles is not None:
        owners = collections.defaultdict(list)
        for an, a in gene.alleles.items():
            for mi in a.minors:
                owners[mi].append(an)
        for name, is_bare_left in db_alleles:
            if is_bare_left:
                continue
            r = gene.get_allele(name)
            if r is None:
                probs.append(("unreachable", f"database allele {name} cannot be looked up"))
                continue
            target = gene.removed.get(name, name)
            if len([o for o in owners.get(target, []) if "#" not in o]) != 1:
                probs.append(("not-unique", f"database allele {name} belongs to "
                                            f"{owners.get(target)} major alleles"))
    return probs


def catalogue_signature(gene):
    """build independent description of the catalogue."""
    sig = {}
    for an, a in gene.alleles.items():
        sig[an] = (a.cn_config, refseq_sets(gene, a.func_muts),
                   tuple(sorted((mi, refseq_sets(gene, mn.neutral_muts))
                                for mi, mn in a.minors.items())))
    # a zero-length region holds no position: its copy number is unobservable and is set
    # to 0 by the loader; region tables are per-build input data, so such regions are
    # left out of the comparison
    empty = {(gi, r) for gi, gr in enumerate(gene.regions) for r, rng in gr.items()
             if rng.end - rng.start <= 0}
    cn = {k: (str(v.kind), tuple(sorted((gi, r, val) for gi, g_ in enumerate(v.cn)
                                        for r, val in g_.items())))
          for k, v in gene.cn_configs.items()}
    return sig, cn, dict(gene.removed), empty


def same_catalogue(a, b):
    if a[0] != b[0] or a[2] != b[2] or set(a[1]) != set(b[1]):
        return False
    skip = a[3] | b[3]
    for k in a[1]:
        if a[1][k][0] != b[1][k][0]:
            return False
        va = [x for x in a[1][k][1] if (x[0], x[1]) not in skip]
        vb = [x for x in b[1][k][1] if (x[0], x[1]) not in skip]
        if va != vb:
            return False
    return True


def run_gen(cfg):
    res = new_result(cfg)
    K = cfg["K"]
    y0 = base_yaml()
    eng = Engine(name="c09")
    masks = [z3.Int(f"mask{j}") for j in range(K)]
    kinds = [z3.Int(f"kind{j}") for j in range(K)]
    flags = [z3.Bool(f"fn{i}") for i in range(3)]
    base = [z3.And(m >= 0, m < 8) for m in masks] + [z3.And(k >= 0, k < len(KINDS))
                                                     for k in kinds]
    base.append(kinds[0] == cfg["first"])
    if cfg.get("kinds"):
        base += [k == v for k, v in zip(kinds, cfg["kinds"])]
    elif cfg.get("normal_only"):
        base += [k == 0 for k in kinds]
    elif K > 2:
        # third allele: normal or left fusion, over the first two variants only
        base += [masks[2] < 4, kinds[2] <= 1]
    # at most one whole-gene deletion allele, listed last (a database property)
    base.append(z3.Sum([z3.If(k == KINDS.index("deletion"), 1, 0) for k in kinds]) <= 1)
    tag = f"gen/K={K}/first={KINDS[cfg['first']]}/names={cfg.get('names', 1)}"

    def run():
        table = [(eng.choose(masks[j], range(8)), KINDS[eng.choose(kinds[j],
                                                                   range(len(KINDS)))])
                 for j in range(K)]
        fl = [eng.branch(f) for f in flags]
        return table, fl, check_table(y0, table, fl, cfg.get("names", 1))

    n = 0
    for dec, pc, (table, fl, probs) in eng.explore(run, base, max_paths=400000):
        n += 1
        for asp in ("loads", "partition", "content", "builds"):
            ps = [p for p in probs if aspect(p[0]) == asp]
            ob(res, f"{tag}: {asp}", "holds" if not ps else (
                "known-finding" if all(p[0] in KNOWN_KEYS for p in ps) else "sat"))
        kinds_ = {}
        for p in probs:
            kinds_.setdefault(p[0], p)
        for k_, p in kinds_.items():
            res["violations"].append({
                "what": f"table {table} functional={fl}: {p[1]}", "key": k_,
                "replay": {"kind": "gen", "table": table, "flags": fl,
                           "names": cfg.get("names", 1)}})
        if len(res["samples"]) < 2:
            res["samples"].append({"table": table, "flags": fl, "problems": probs[:2]})
    seen = {}
    for v in res["violations"]:
        seen.setdefault(v["key"], v)
    res["violations"] = list(seen.values())
    res["stats"] = dict(eng.stats)
    res["stats"]["distinct_cases"] = n
    res["obligations"] = [{"label": o["label"], "status": o["status"], "secs": 0}
                          for o in res["obligations"]]
    return res


def aspect(key):
    if key.startswith("load"):
        return "loads"
    if key.startswith("build"):
        return "builds"
    if key in ("unreachable", "not-unique", "major-duplicate", "major-duplicate-partial",
               "minor-duplicate",
               "config-missing", "config-list"):
        return "partition"
    return "content"


def check_table(y0, table, fl, ns=1):
    NAMES = NAMESETS[ns]
    txt = table_yaml(y0, table, fl, NAMES)
    probs = []
    genes = {}
    for b in ("hg19", "hg38"):
        try:
            genes[b] = Gene(None, name="GA", yml=txt, genome=b)
        except Exception as e:  # noqa
            probs.append((f"load-{type(e).__name__}", f"loading ({b}) raised "
                                                      f"{type(e).__name__}: {e}"))
            return probs
    db = [("1.001", False)]
    for (name, label), (mask, kind) in zip(NAMES, table):
        db.append((name, kind == "left" and not any(
            fl[i] for i in range(3) if mask & (1 << i))))
    for b, g in genes.items():
        probs += invariants(g, db)
        # an allele written with a custom deletion has a structure in which exactly the
        # declared regions of the gene are missing
        for (name, label), (mask, kind) in zip(NAMES, table):
            if kind not in CUSTOM:
                continue
            target = g.removed.get(name, name)
            own = [a for an, a in g.alleles.items() if target in a.minors and "#" not in an]
            for a in own:
                gone = sorted(r for r, v in g.cn_configs[a.cn_config].cn[0].items() if v == 0)
                if gone != sorted(CUSTOM[kind]):
                    probs.append(("custom-structure",
                                  f"allele {name} (deletion of {CUSTOM[kind]}) is filed "
                                  f"under a structure that lacks {gone}"))
    s19, s38 = catalogue_signature(genes["hg19"]), catalogue_signature(genes["hg38"])
    if not same_catalogue(s19, s38):
        d = [k for k in set(s19[0]) | set(s38[0]) if s19[0].get(k) != s38[0].get(k)]
        probs.append(("build-differs", f"catalogue differs between builds for {d[:3]} "
                                       f"(configs {s19[1] == s38[1]}, aliases "
                                       f"{s19[2] == s38[2]})"))
    return probs


def run_corpus(cfg):
    res = new_result(cfg)
    n = 0
    for gname in cfg["genes"]:
        sigs = {}
        for b in ("hg19", "hg38"):
            g = gengene.load(gname, b)
            n += 1
            db = []
            for name, a in g._yml["alleles"].items():
                if name in ("random", "groups") or a.get("ignored", False):
                    continue
                from aldy.common import allele_name

                nm = allele_name(name)
                bare = any(isinstance(m[0], str) and m[0] in g.pseudogenes and
                           str(m[1]).endswith("-") for m in a["mutations"])
                db.append((nm, bare))
            probs = invariants(g, db)
            for key, msg in probs[:5]:
                res["violations"].append({
                    "what": f"{gname}/{b}: {msg}", "key": f"corpus:{gname}:{key}",
                    "replay": {"kind": "corpus", "gene": gname, "genome": b}})
            ob(res, f"corpus {gname}/{b}: catalogue invariants", "holds" if not probs
               else "sat", corpus=True)
            sigs[b] = catalogue_signature(g)
        same = same_catalogue(sigs["hg19"], sigs["hg38"])
        ob(res, f"corpus {gname}: catalogue identical in both builds (RefSeq terms)",
           "holds" if same else "sat", corpus=True)
        if not same:
            res["violations"].append({
                "what": f"{gname}: catalogue differs between hg19 and hg38",
                "key": f"corpus:{gname}:builds",
                "replay": {"kind": "corpus", "gene": gname, "genome": "both"}})
    res["stats"] = {"paths": n}
    return res


def replay(o):
    if o["kind"] == "gen":
        probs = check_table(base_yaml(), [tuple(t) for t in o["table"]], o["flags"],
                            o.get("names", 1))
        return bool(probs), "; ".join(p[1] for p in probs[:3])
    gname = o["gene"]
    out = []
    for b in ("hg19", "hg38"):
        g = gengene.load(gname, b)
        out += invariants(g, None)
    s = not same_catalogue(catalogue_signature(gengene.load(gname, "hg19")),
                           catalogue_signature(gengene.load(gname, "hg38")))
    return bool(out) or s, "; ".join(p[1] for p in out[:3]) + (" builds differ" if s else "")
