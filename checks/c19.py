"""
C19 -- no genotype is reported from no data.

  guard     the real genotype() under stage stubs with *symbolic* average depth and
            min_avg_coverage, for both ways of fixing the structure (profile / user
            supplied) and both output kinds: depth below the minimum => AldyException
            before any stage runs (and an empty result line in simple output)
  neutral   the real Sample.__init__ tail + Coverage._normalize_coverage /
            diploid_avg_coverage with symbolic neutral-region depths: empty neutral
            region => rejected; diploid average < 2 => rejected
  deletion  pseudogene-only depth (gene depth 0, pseudogene depth ~2): no guard fires and
            z3 proves the double deletion is an optimum of the real structure model
            (over all assignments)
Counterexamples of `guard` are replayed end to end: a header-only BAM is written with
pysam and genotyped by the unmodified genotype().
"""
import os
import time
import tempfile
import collections
import z3

import symx
import gengene
import genoharness
from symx import S, SB, Engine
from vcommon import new_result, ob
from aldy.common import AldyException, GRange
from aldy.profile import Profile

PROPERTY = "C19"
LEVEL = "model_checking"
FUNCTIONS = ["aldy.genotype.genotype (lines 173-220)", "aldy.sam.Sample.__init__ (tail)",
             "aldy.sam.Sample._make_coverage",
             "aldy.coverage.Coverage.{_normalize_coverage,diploid_avg_coverage,"
             "average_coverage}", "aldy.cn.solve_cn_model", "aldy.cn.estimate_cn (low-depth guard)",
             "aldy.sam._in_region",
             "aldy.sam.Sample._load_sam (eligibility of a read)"]
STUBS = ["genotype(): detect_genome, Sample, Profile.load and the three stages are stubs; "
         "Sample(): detect_genome -> 'dump', _load_dump -> empty evidence with symbolic "
         "neutral depth", "lpinterface.model -> z3-capturing backend (deletion part)"]
OUTSIDE = ["htslib reading (the replay uses a real header-only BAM)"]
ASSUMPTIONS = ["depths are non-negative reals"]


def BOUNDS(tier):
    return ["guard: average depth and min_avg_coverage symbolic reals in [0,100]; routes "
            "{profile, BAM-as-profile (same code path), user-supplied structure}; output "
            "{none, simple}", "neutral: 3-position neutral region, symbolic depths in "
            "[0,50], neutral_value symbolic in (0,100]",
            "locus test: symbolic read and region intervals (aldy.sam._in_region), "
            "eligibility flags of _load_sam", "deletion: toy, GA, GC" + (", cyp2d6" if tier == "thorough" else "")
            + "; gene depth 0, pseudogene depth in [1.75, 2.25] per region (symbolic)"]


def configs(tier):
    c = []
    for route in ("profile", "user"):
        for simple in (False, True):
            c.append({"kind": "guard", "route": route, "simple": simple})
    c.append({"kind": "neutral"})
    # the depth the guard compares: average over the covered positions of the locus, gene
    # and pseudogene alike (reads on the pseudogene only are not "no reads")
    c.append({"kind": "average"})
    # "no reads in the locus" presupposes that reads elsewhere do not count: the locus
    # test on symbolic read / region intervals and the eligibility flags (shared with C06)
    c.append({"kind": "region"})
    c.append({"kind": "eligible"})
    # the structure stage's own low-depth guard (estimate_cn wrapper, shared with C03)
    import c03
    c += [x for x in c03.configs(tier) if x.get("kind") == "wrapper"]
    for g in ["toy", "GA", "GC"] + (["cyp2d6"] if tier == "thorough" else []):
        c.append({"kind": "deletion", "gene": g, "genome": "hg19"})
    return c


def run_config(cfg):
    if cfg["kind"] in ("region", "eligible"):
        import c06
        return getattr(c06, "run_" + cfg["kind"])(cfg)
    if cfg["kind"] == "wrapper":
        import c03
        return c03.run_wrapper(cfg)
    return globals()["run_" + cfg["kind"]](cfg)


PLAN = {"cn": [["1", "1"]], "major": {0: [{"1": 2}]}, "minor": {(0, 0): 1}}


def run_guard(cfg):
    res = new_result(cfg)
    eng = Engine(name="c19")
    avg, mn = z3.Real("avg"), z3.Real("min_avg")
    base = [avg >= 0, avg <= 100, mn >= 0, mn <= 100]
    state = {}

    def run():
        h = genoharness.Harness(PLAN, lambda k, i: 1.0, avg_cov=S(avg))
        state["h"] = h
        out = genoharness.Out("x.simple") if cfg["simple"] else None
        state["out"] = out
        kw = {"cn_solution": ["1", "1"], "profile_name": None} if cfg["route"] == "user" \
            else {}
        try:
            h.run(output=out, is_simple=cfg["simple"], params={"min_avg_coverage": S(mn)},
                  **kw)
            return "ok"
        except AldyException:
            return "raise"

    tag = f"guard/{cfg['route']}/{'simple' if cfg['simple'] else 'plain'}"
    for dec, pc, st in eng.explore(run, base):
        h = state["h"]
        staged = any(c in ("cn", "major", "minor") for c in h.calls)
        t0 = time.time()
        if st == "raise":
            goal = z3.And(avg < mn, z3.BoolVal(not staged))
            what = "rejected only below the minimum, before any stage ran"
        else:
            goal = z3.Not(avg < mn)
            what = "a genotype is produced only at or above the minimum average depth"
        s_, mdl = eng.prove([], goal)
        ob(res, f"{tag}: {what}", s_, time.time() - t0)
        if s_ == "sat":
            a_, m_ = (float(symx.model_value(mdl, v)) for v in (avg, mn))
            rp = {"kind": "guard", "route": cfg["route"], "simple": cfg["simple"],
                  "avg": a_, "min": m_}
            okk, msg = replay(rp)
            res["stats"]["replays"] = res["stats"].get("replays", 0) + 1
            if okk:
                res["violations"].append({
                    "what": f"{tag}: {msg}", "key": f"guard:{cfg['route']}", "replay": rp})
            else:
                res["inconclusive"].append(f"{tag}: {msg}")
                ob(res, f"UNREPRODUCED counterexample: {tag}", "inconclusive")
        if st == "raise" and cfg["simple"]:
            txt = state["out"].buf.getvalue()
            good = txt.endswith("\n") and txt.count("\n") == 1
            ob(res, f"{tag}: simple output ends the gene's line on rejection",
               "holds" if good else "sat")
            if not good:
                res["violations"].append({
                    "what": f"{tag}: simple output on rejection is {txt!r}",
                    "key": "guard-simple",
                    "replay": {"kind": "guard", "route": cfg["route"], "simple": True,
                               "avg": 0.0, "min": 2.0}})
    res["stats"] = {**dict(eng.stats), **res["stats"]}
    return res


def replay_guard(o):
    """End to end: header-only BAM through the unmodified genotype()."""
    import io
    import contextlib
    import pysam
    from aldy.genotype import genotype

    if o["avg"] > 0:
        # only the all-zero locus can be built without a read simulator: use the stubs
        h = genoharness.Harness(PLAN, lambda k, i: 1.0, avg_cov=o["avg"])
        kw = {"cn_solution": ["1", "1"], "profile_name": None} if o["route"] == "user" \
            else {}
        try:
            h.run(params={"min_avg_coverage": o["min"]}, is_simple=o.get("simple", False),
                  output=genoharness.Out("x.simple") if o.get("simple") else None, **kw)
            return o["avg"] < o["min"], (f"average depth {o['avg']} < minimum {o['min']} "
                                         "but a genotype was produced (stubbed stages)")
        except AldyException:
            return o["avg"] >= o["min"], f"rejected at depth {o['avg']} >= {o['min']}"
    with tempfile.TemporaryDirectory() as tmp:
        bam = os.path.join(tmp, "empty.bam")
        hdr = {"HD": {"VN": "1.6", "SO": "coordinate"},
               "SQ": [{"SN": "1", "LN": 249250621}, {"SN": "10", "LN": 135534747},
                      {"SN": "22", "LN": 51304566}]}
        with pysam.AlignmentFile(bam, "wb", header=hdr):
            pass
        pysam.index(bam)
        kw = {"profile_name": None, "cn_solution": ["1", "1"]} if o["route"] == "user" \
            else {"profile_name": "illumina"}
        if o["min"] > 0:
            kw["min_avg_coverage"] = o["min"]
        try:
            with contextlib.redirect_stdout(io.StringIO()):
                r = genotype("cyp2c19", bam, output_file=None, **kw)
        except AldyException as e:
            return False, f"rejected: {str(e)[:80]}"
        calls = {k: [s.get_major_diplotype() for s in v] for k, v in r.items()}
        return True, (f"a BAM without a single read is genotyped as {list(calls.values())} "
                      f"(structure {'supplied by the user' if o['route']=='user' else 'estimated'})")


# ------------------------------------------------------------------ average depth


def _avg_case(gname, where, depth, npos):
    import c06

    gene = gengene.load(gname, "hg19")
    s = c06.new_sample(gene)
    regs = []
    if where in ("gene", "both"):
        regs.append(gene.regions[0]["e2"])
    if where in ("pseudogene", "both"):
        regs.append(gene.regions[1]["e2"])
    norm = {}
    for rg in regs:
        for p in range(rg.start, rg.start + npos):
            norm[p] = [(40, 40)] * depth
    s._make_coverage(norm, {})
    return float(s.coverage.average_coverage()), depth, len(norm)


def run_average(cfg):
    res = new_result(cfg)
    eng = Engine(name="c19a")
    wi, di, ni, gi = z3.Int("where"), z3.Int("depth"), z3.Int("positions"), z3.Int("gene")
    places = ["gene", "pseudogene", "both"]

    def run():
        g = ("GA", "toy")[eng.choose(gi, range(2))]
        w = places[eng.choose(wi, range(3))]
        d = eng.choose(di, (1, 3, 30))
        n = eng.choose(ni, (1, 5, 12))
        return (g, w, d, n), _avg_case(g, w, d, n)

    k = 0
    for dec, pc, (case, (avg, d, n)) in eng.explore(run, [], max_paths=1000):
        k += 1
        # every covered position has depth d: the average is d (the code divides by
        # n + 0.1, which must stay a small correction)
        good = d * n / (n + 0.11) <= avg <= d
        ob(res, "average: the guard's average depth is the mean over the covered positions "
                "of the locus (gene or pseudogene)", "holds" if good else "sat")
        if not good:
            res["violations"].append({
                "what": f"average depth of {case[0]} with depth {d} on {n} positions of the "
                        f"{case[1]} is reported as {avg}", "key": "average",
                "replay": {"kind": "average", "case": list(case)}})
    seen = {}
    for v in res["violations"]:
        seen.setdefault(v["key"], v)
    res["violations"] = list(seen.values())
    res["stats"] = {**dict(eng.stats), "paths": k}
    res["obligations"] = [{"label": o["label"], "status": o["status"], "secs": 0}
                          for o in res["obligations"]]
    return res


def replay_average(o):
    g, w, d, n = o["case"]
    avg, d, n = _avg_case(g, w, d, n)
    return not (d * n / (n + 0.11) <= avg <= d), f"average {avg} for depth {d}"


# ------------------------------------------------------------------ neutral region


def run_neutral(cfg):
    import aldy.sam as sam_mod

    res = new_result(cfg)
    eng = Engine(name="c19n")
    gene = gengene.load("toy", "hg19")
    d = [z3.Real(f"n{i}") for i in range(3)]
    nv = z3.Real("neutral_value")
    base = [z3.And(x >= 0, x <= 50) for x in d] + [nv > 0, nv <= 100]
    region = GRange("20", 500, 503)
    data = {gene.name: {r: [10.0, 10.0] for r in gene.regions[0]}}

    import aldy.coverage as cov_mod

    def run():
        prof = Profile("p", region, data)
        prof.neutral_value = S(nv)
        saved = (sam_mod.detect_genome, sam_mod.Sample._load_dump)
        cov_mod.float = symx.sfloat

        def load_dump(self, path):
            self.profile = prof
            self._dump_cn = collections.defaultdict(int, {500 + i: S(d[i]) for i in range(3)})
            return {}, {}

        sam_mod.detect_genome = lambda p: ("dump", "hg19")
        sam_mod.Sample._load_dump = load_dump
        try:
            s = sam_mod.Sample(gene, None, "x.dump")
            return "ok", s
        except AldyException as e:
            return "raise", str(e)
        except Exception as e:  # noqa  (a crash instead of an explanatory error)
            return "crash", f"{type(e).__name__}: {e}"
        finally:
            sam_mod.detect_genome, sam_mod.Sample._load_dump = saved
            cov_mod.__dict__.pop("float", None)

    tot = z3.Sum(d)
    for dec, pc, (st, r) in eng.explore(run, base):
        t0 = time.time()
        if st == "crash":
            goal = z3.BoolVal(False)
            what = f"no crash ({r})"
        elif st == "raise":
            goal = z3.Or(tot == 0, tot / 3 < 2)
            what = "rejected only if the neutral region is empty or its average depth < 2"
        else:
            goal = z3.And(tot > 0, tot / 3 >= 2)
            what = "accepted only with a non-empty neutral region of average depth >= 2"
        s_, mdl = eng.prove([], goal)
        ob(res, f"neutral: {what}", s_, time.time() - t0)
        if s_ == "sat":
            vals = [float(symx.model_value(mdl, x)) for x in d]
            rp = {"kind": "neutral", "depths": vals, "nv": float(symx.model_value(mdl, nv))}
            okk, msg = replay(rp)
            res["stats"]["replays"] = res["stats"].get("replays", 0) + 1
            if okk:
                res["violations"].append({"what": f"neutral-region guard: {msg}",
                                          "key": "neutral", "replay": rp})
            else:
                res["inconclusive"].append(msg)
                ob(res, "UNREPRODUCED counterexample: neutral", "inconclusive")
    res["stats"] = {**dict(eng.stats), **res["stats"]}
    return res


def replay_neutral(o):
    import aldy.sam as sam_mod

    gene = gengene.load("toy", "hg19")
    region = GRange("20", 500, 503)
    data = {gene.name: {r: [10.0, 10.0] for r in gene.regions[0]}}
    prof = Profile("p", region, data)
    prof.neutral_value = o["nv"]
    saved = (sam_mod.detect_genome, sam_mod.Sample._load_dump)

    def load_dump(self, path):
        self.profile = prof
        self._dump_cn = collections.defaultdict(
            int, {500 + i: o["depths"][i] for i in range(3)})
        return {}, {}

    sam_mod.detect_genome = lambda p: ("dump", "hg19")
    sam_mod.Sample._load_dump = load_dump
    try:
        sam_mod.Sample(gene, None, "x.dump")
        st = "ok"
    except AldyException:
        st = "raise"
    except Exception as e:  # noqa
        st = f"crash ({type(e).__name__}: {e})"
    finally:
        sam_mod.detect_genome, sam_mod.Sample._load_dump = saved
    tot = sum(o["depths"])
    want = "raise" if (tot == 0 or tot / 3 < 2) else "ok"
    return st != want, f"depths {o['depths']}: sample {st}, expected {want}"


# ------------------------------------------------------------------ deletion optimum


def run_deletion(cfg):
    import aldy.cn as cn
    import aldy.common
    import c03

    res = new_result(cfg)
    gene = gengene.load(cfg["gene"], cfg["genome"])
    dele = gene.deletion_allele()
    profile = Profile("verif")
    eng = Engine(name="c19d", timeout_ms=120000)
    tag = f"deletion/{cfg['gene']}"
    if not dele or len(gene.regions) < 2:
        ob(res, f"{tag}: gene has a deletion allele and a pseudogene", "unknown")
        return res
    # gene depth 0; pseudogene depth p_r in [1.75, 2.25]; scale_r = p_r + 1, so
    # inv_r = 1/(p_r+1) in [1/3.25, 1/2.75] and (0-p_r)*inv_r = inv_r - 1 exactly.
    inv = {r: z3.Real(f"inv_{r}") for r in gene.unique_regions}
    base = []
    region_cov = {}
    for r in gene.unique_regions:
        zero_len = gene.regions[1][r].end - gene.regions[1][r].start <= 0
        base += [inv[r] >= z3.Q(100, 325), inv[r] <= z3.Q(100, 275)]
        p = 1 / S(inv[r]) - 1
        region_cov[r] = (0.0, _Inv(inv[r]))
    saved = cn.__dict__.get("max")
    cn.max = _max_inv

    def run():
        aldy.common.json.clear()
        with symx.install() as inst:
            cn.solve_cn_model(gene, profile, gene.cn_configs, 3, region_cov, "z3")
            return inst.models[-1]

    try:
        for dec, pc, m in eng.explore(run, base):
            cons = m.z3_constraints()
            obj = m.obj_z3()
            # objective of the double deletion: substitute its assignment
            sub = []
            for v in m.vars:
                if v.kind == "B":
                    sub.append((v.zv, z3.BoolVal(v.raw in (f"CN_{dele}_0", f"CN_{dele}_-1"))))
            feas_bin = z3.substitute(z3.And([c.z3() for c in m.constrs
                                             if all(v.kind == "B" for v in c.vars())]), *sub)
            t0 = time.time()
            s1, _ = eng.prove([], feas_bin)
            ob(res, f"{tag}: the double deletion is an admissible structure", s1,
               time.time() - t0)
            # min over continuous of obj at deldel == documented objective; compare:
            # for all feasible points: obj >= best objective of deldel
            E = {v.raw: v for v in m.vars if v.kind != "B"}
            dd = z3.RealVal(0)
            nR = len(gene.unique_regions)
            for r in gene.unique_regions:
                ps = gene.cn_configs[dele].cn[1].get(r, 0)
                w = profile.cn_pce_penalty if r == "pce" else 1.0
                # depth residual: (0 - p)/scale - (0 - 2*ps)/scale = (inv-1) + 2 ps inv
                resid = (inv[r] - 1) + 2 * ps * inv[r]
                dd = dd + symx.q(profile.cn_diff / nR * w) * z3.If(resid >= 0, resid, -resid)
            dd = dd + 2 * symx.q(c03.slot_penalty(gene, profile, (dele, 0)))
            t0 = time.time()
            s2, mdl = eng.prove(cons, obj >= dd - symx.q(1e-9))
            ob(res, f"{tag}: no structure scores lower than the double deletion when only "
                    "the pseudogene has depth (~2 copies)", s2, time.time() - t0)
            if s2 == "sat":
                pv = {r: float(1 / symx.model_value(mdl, inv[r]) - 1)
                      for r in gene.unique_regions}
                rp = {"kind": "deletion", "gene": cfg["gene"], "genome": cfg["genome"],
                      "pseudo": pv}
                okk, msg = replay(rp)
                res["stats"]["replays"] = res["stats"].get("replays", 0) + 1
                if okk:
                    res["violations"].append({"what": f"{tag}: {msg}", "key": "deletion",
                                              "replay": rp})
                else:
                    res["inconclusive"].append(f"{tag}: {msg}")
                    ob(res, f"UNREPRODUCED counterexample: {tag}", "inconclusive")
    finally:
        if saved is None:
            cn.__dict__.pop("max", None)
        else:
            cn.max = saved
    res["stats"] = {**dict(eng.stats), **res["stats"]}
    return res


class _Inv(S):
    """pseudogene depth p given through inv = 1/(p+1): max(0,p)+1 = 1/inv, exactly."""

    __slots__ = ("inv",)

    def __init__(self, inv):
        S.__init__(self, 1 / inv - 1)
        self.inv = inv


class _Scale(S):
    __slots__ = ("inv",)

    def __init__(self, inv):
        S.__init__(self, 1 / inv)
        self.inv = inv


def _max_inv(a, b):
    if isinstance(b, _Inv):
        class _M(S):
            def __add__(self_, o):
                return _Scale(b.inv)
        return _M(b.t)
    return symx.smax(a, b)


_orig_div = S.__truediv__


def _div(self, o):
    if isinstance(o, _Scale):
        if isinstance(self, _Inv) or True:
            # (0 - p) / scale = -(1/inv - 1) * inv = inv - 1 ; generic: self * inv
            if isinstance(self, S) and z3.eq(z3.simplify(self.t),
                                             z3.simplify(0 - (1 / o.inv - 1))):
                return S(o.inv - 1)
            return S(self.t * o.inv)
    return _orig_div(self, o)


S.__truediv__ = _div
_orig_nd = symx._num_div


def _nd(a, b):
    if isinstance(b, _Scale):
        return S(symx.tz(a) * b.inv)
    return _orig_nd(a, b)


symx._num_div = _nd


def replay_deletion(o):
    import aldy.cn as cn

    gene = gengene.load(o["gene"], o["genome"])
    profile = Profile("replay")
    rc = {r: (0.0, o["pseudo"][r]) for r in gene.unique_regions}
    sols = cn.solve_cn_model(gene, profile, gene.cn_configs, 3, rc, "any")
    names = [tuple(sorted(s.solution.elements())) for s in sols]
    return () not in names, f"pseudogene-only depth {o['pseudo']} is called as {names}"


def replay(o):
    if o["kind"] == "wrapper" or (o["kind"] == "none" and o.get("wrapper")):
        import c03
        return c03.replay(o)
    if o["kind"] in ("region", "none"):
        import c06
        return c06.replay(o)
    return globals()["replay_" + o["kind"]](o)
