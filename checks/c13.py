"""
C13 -- calls do not depend on genome build or gene strand.

For a gene database whose two builds use different offsets / opposite strands the same
evidence (symbols named by RefSeq notation, independent of the build) is pushed through
the real stage code of both builds with the z3-capturing backend.  For every support
pattern the two captured models are identified variable by variable through allele names
and RefSeq notation and z3 proves

    constraints(hg19) <=> constraints(hg38)   and   objective(hg19) == objective(hg38)

for all evidence values and all assignments, i.e. equal feasible sets and equal scores,
hence (with C05) equal solution sets.  The structure model is compared the same way with
region depths named by region.  Counterexamples are replayed through the real stages on
both builds with CBC and compared by allele names / RefSeq notation.
"""
import os
import time
import collections
import z3

import symx
import gengene
import stagelib
import c04
from symx import S, Engine
from vcommon import new_result, ob
from aldy.gene import Mutation
from aldy.profile import Profile
from aldy.solutions import CNSolution, MajorSolution, SolvedAllele
from aldy.common import AldyException

PROPERTY = "C13"
LEVEL = "model_checking"
FUNCTIONS = ["aldy.major.estimate_major/solve_major_model", "aldy.minor.estimate_minor/"
             "solve_minor_model", "aldy.cn.solve_cn_model", "aldy.gene.Gene (both builds)",
             "aldy.sam.Sample._make_coverage", "aldy.gene.Gene.{get_functional,is_functional} "
             "(effect inference)", "aldy.genotype.genotype (build resolution, incl. the "
             "multi-gene recursion)"]
STUBS = ["as C02/C03/C04 (capturing backend, symbolic counts, identity filter)",
         "build: sam.detect_genome -> arbitrary (kind, build) of its type, chosen by the "
         "solver; Gene() -> recorder"]
OUTSIDE = ["reads aligned against each build by an aligner (I/O); catalogue equality itself is C09, "
           "coordinate maps C08", "shipped genes other than the listed ones"]
ASSUMPTIONS = ["evidence is transported between builds through RefSeq notation: the count "
               "of a variant is the same symbol in both builds, depth per site 10*cn"]
D = 10


def BOUNDS(tier):
    return ["generated genes GA (+/- strands), GB (-/+), GC (+/+ with alignment gaps), GD "
            "(+/-, variants on region boundaries with structures breaking there), toy "
            "(+/-); shipped: cyp2c19, cyp2d6 (restricted support) in thorough",
            "major: structures of 2-3 copies; minor: major solutions of 2 copies; cn: "
            "max_cn 3-4; all support patterns",
            "build: file kind in {sam, vcf, dump} x detected build in {none, hg19, hg38} x "
            "named build in {none, hg19, hg38} x one / two genes (exhaustive)"]


def configs(tier):
    c = []
    maj = {"toy": [["1", "1"], ["1", "4"], ["1", "5"]], "GA": [["1", "1"], ["1", "5"], ["1", "6"]],
           "GB": [["1", "1"]], "GC": [["1", "1"], ["1", "4"]],
           "GD": [["1", "5"], ["1", "6"], ["1", "7"]]}
    for g, sts in maj.items():
        for st in (sts if tier == "thorough" or g == "GD" else sts[:2]):
            c.append({"kind": "major", "gene": g, "cn": st})
            if g == "GD":
                # reads on the variants next to the structure break points only (RefSeq
                # positions; 0-based: last base of e1 / i1 / e2, first base of e2)
                c[-1]["only"] = [29, 39, 40, 59]
    # first / last RefSeq base and the deletion-insertion of GD
    c.append({"kind": "major", "gene": "GD", "cn": ["1", "1"], "only": [0, 49, 119]})
    mins = [("toy", ["1", "1"], {"1": 1, "3": 1}), ("toy", ["1", "1"], {"2": 1, "3": 1}),
            ("GA", ["1", "1"], {"3": 1, "4": 1}), ("GA", ["1", "5"], {"1": 1, "5#1": 1}),
            ("GB", ["1", "1"], {"4": 1, "5": 1}), ("GB", ["1", "1"], {"5": 2}),
            ("GB", ["1", "1"], {"2": 1, "3": 1}), ("GC", ["1", "1"], {"2": 1, "3": 1}),
            ("GD", ["1", "1"], {"2": 1, "4": 1})]
    for g, cn, mj in mins:
        c.append({"kind": "minor", "gene": g, "cn": cn, "major": mj})
    for g in ("toy", "GA", "GC", "GD"):
        for mc in ((3, 4) if tier == "thorough" else (3,)):
            c.append({"kind": "cn", "gene": g, "max_cn": mc})
    for g in ("GA", "GB", "GD"):
        c.append({"kind": "pileup", "gene": g})
    # inferred effect of substitutions that are not in the catalogue (novel core variants)
    for g in ("toy", "GA", "GB", "GD"):
        c.append({"kind": "infer", "gene": g})
    # added / lost variants are reported in RefSeq notation: it must be the same string in
    # both builds for every catalogued variant
    for g in ("toy", "GA", "GB", "GD", "GE"):
        c.append({"kind": "notation", "gene": g})
    # which build's coordinates genotype() loads: the one the caller names; the header
    # detection (an environment stub returning an arbitrary value of its type) only fills in
    # when none is named. Single gene and the multi-gene recursion.
    c.append({"kind": "build"})
    if tier == "thorough":
        c.append({"kind": "major", "gene": "cyp2c19", "cn": ["1", "1"], "support": 4})
        c.append({"kind": "major", "gene": "cyp2d6", "cn": ["1", "1"], "support": 4})
        c.append({"kind": "cn", "gene": "cyp2d6", "max_cn": 3})
    return c


def run_config(cfg):
    return globals()["run_" + cfg["kind"]](cfg)


class _Stop(BaseException):
    pass


BUILD_VALUES = [None, "hg19", "hg38"]
BUILD_KINDS = ["sam", "vcf", "dump"]


def build_case(kind, detected, given, multi):
    """builds handed to Gene() by the real genotype() when the file is of `kind`, its header
    says `detected` and the caller names `given`; multi = two genes (recursive call)."""
    import aldy.genotype as G
    import aldy.sam as sam_mod

    seen = []

    def fake_gene(db, genome=None, *a, **kw):
        seen.append(genome)
        raise _Stop()

    saved = (sam_mod.detect_genome, G.Gene)
    sam_mod.detect_genome = lambda p: (kind, detected)
    G.Gene = fake_gene
    try:
        G.genotype("cyp2d6,cyp2c19" if multi else "cyp2d6", os.path.abspath(__file__),
                   "illumina", None, solver="any", genome=given)
    except _Stop:
        pass
    except AldyException as e:
        seen.append(f"error: {e}")
    finally:
        sam_mod.detect_genome, G.Gene = saved
    want = given if given is not None else (detected or "hg19")
    probs = []
    if not seen or seen[0] != want:
        probs.append(f"{kind} file, header says {detected}, caller names {given}"
                     f"{', two genes' if multi else ''}: gene database loaded for "
                     f"{seen[:1]}, expected {want}")
    return probs


def run_build(cfg):
    res = new_result(cfg)
    eng = Engine(name="c13b")
    ki, di, gi, mi = z3.Int("kind"), z3.Int("detected"), z3.Int("given"), z3.Int("multi")

    def run():
        k = BUILD_KINDS[eng.choose(ki, range(3))]
        d = BUILD_VALUES[eng.choose(di, range(3))]
        g = BUILD_VALUES[eng.choose(gi, range(3))]
        m = bool(eng.choose(mi, range(2)))
        return (k, d, g, m), build_case(k, d, g, m)

    n = 0
    for dec, pc, ((k, d, g, m), probs) in eng.explore(run, [], max_paths=1000):
        n += 1
        ob(res, "build: genotype() loads the gene for the build the caller names (header "
                "detection only when none is named, hg19 when nothing is known)",
           "holds" if not probs else "sat")
        if probs:
            res["violations"].append({
                "what": probs[0], "key": f"build:{k}:{d}:{g}",
                "replay": {"kind": "build", "file": k, "detected": d, "given": g,
                           "multi": m}})
    res["violations"] = res["violations"][:4]
    res["stats"] = {**dict(eng.stats), "paths": n}
    return res


def run_notation(cfg):
    res = new_result(cfg)
    eng = Engine(name="c13n")
    genes, byref = _pileup_tables(cfg["gene"])
    ids = sorted(k for k, v in byref.items() if len(v) == 2)
    vi = z3.Int("variant")
    tag = f"notation/{cfg['gene']}"

    def run():
        rid = ids[eng.choose(vi, range(len(ids)))]
        return rid, {b: g.get_refseq(byref[rid][b]) for b, g in genes.items()}

    k = 0
    for dec, pc, (rid, out) in eng.explore(run, [], max_paths=10000):
        k += 1
        same = out["hg19"] == out["hg38"]
        ob(res, f"{tag}: a catalogued variant is reported in the same RefSeq notation in "
                "both builds", "holds" if same else "sat")
        if not same:
            res["violations"].append({
                "what": f"{tag}: variant {rid[0] + 1}{rid[1]} is reported as {out['hg19']} on "
                        f"hg19 and {out['hg38']} on hg38", "key": "notation:" + cfg["gene"],
                "replay": {"kind": "notation", "gene": cfg["gene"], "rid": list(rid)}})
    seen = {}
    for v in res["violations"]:
        seen.setdefault(v["key"], v)
    res["violations"] = list(seen.values())
    res["stats"] = {**dict(eng.stats), "paths": k}
    res["obligations"] = [{"label": o["label"], "status": o["status"], "secs": 0}
                          for o in res["obligations"]]
    return res


def _infer_case(genes, r, alt):
    """the same RefSeq substitution (0-based index r, RefSeq alt base) expressed against
    each build; returns {build: (effect, functional)}"""
    from aldy.common import rev_comp

    out = {}
    for b, g in genes.items():
        if r not in g.ref_to_chr:
            return None
        ref = g.seq[r]
        pos = g.ref_to_chr[r]
        op = f"{ref}>{alt}" if g.strand > 0 else f"{rev_comp(ref)}>{rev_comp(alt)}"
        if (pos, op) in g.mutations:
            return None  # catalogued: not inferred
        out[b] = (g.get_functional((pos, op)), g.is_functional((pos, op)))
    return out


def run_infer(cfg):
    res = new_result(cfg)
    eng = Engine(name="c13i")
    genes = {b: gengene.load(cfg["gene"], b) for b in ("hg19", "hg38")}
    g19 = genes["hg19"]
    n = len(g19.seq)
    ri, ai = z3.Int("refseq_index"), z3.Int("alt")
    lo = max(0, min(s for s, e in g19.exons) - 2)
    hi = min(n, max(e for s, e in g19.exons) + 2)
    if hi - lo > 400:
        hi = lo + 400
    tag = f"infer/{cfg['gene']}"

    def run():
        r = eng.choose(ri, range(lo, hi))
        alt = "ACGT"[eng.choose(ai, range(4))]
        if alt == g19.seq[r]:
            raise symx.PathAbort()
        out = _infer_case(genes, r, alt)
        if out is None:
            raise symx.PathAbort()
        return (r, alt), out

    k = 0
    for dec, pc, (case, out) in eng.explore(run, [], max_paths=100000):
        k += 1
        same = out["hg19"] == out["hg38"]
        ob(res, f"{tag}: a substitution outside the catalogue gets the same inferred effect "
                "in both builds", "holds" if same else "sat")
        if not same:
            res["violations"].append({
                "what": f"{tag}: RefSeq {case[0] + 1}{g19.seq[case[0]]}>{case[1]}: hg19 "
                        f"{out['hg19']}, hg38 {out['hg38']}", "key": "infer:" + cfg["gene"],
                "replay": {"kind": "infer", "gene": cfg["gene"], "r": case[0],
                           "alt": case[1]}})
    seen = {}
    for v in res["violations"]:
        seen.setdefault(v["key"], v)
    res["violations"] = list(seen.values())
    res["stats"] = {**dict(eng.stats), "paths": k}
    res["obligations"] = [{"label": o["label"], "status": o["status"], "secs": 0}
                          for o in res["obligations"]]
    return res


def _pileup_tables(gname):
    genes = {b: gengene.load(gname, b) for b in ("hg19", "hg38")}
    byref = {}
    for b, g in genes.items():
        for (pos, op) in g.mutations:
            byref.setdefault(refid(g, Mutation(pos, op)), {})[b] = Mutation(pos, op)
    return genes, byref


def _pileup_case(genes, byref, case):
    import c06

    want = {tuple(case[0]): case[1]}
    if tuple(case[2]) != tuple(case[0]) and case[3]:
        want[tuple(case[2])] = case[3]
    out = {}
    for b, g in genes.items():
        s = c06.new_sample(g)
        muts, norm = collections.defaultdict(list), collections.defaultdict(list)
        for rid, cnt in want.items():
            m = byref[rid][b]
            muts[m.pos, m.op] += [(40, 40)] * cnt
            norm[m.pos] += [(40, 40)] * 2  # two reference observations there
        s._make_coverage(norm, muts)
        out[b] = {f"{rid[0]}{rid[1]}": (s.coverage.coverage(byref[rid][b]),
                                        s.coverage.total(byref[rid][b].pos))
                  for rid in want}
    return out


def run_pileup(cfg):
    """The same observations expressed against either build go through the real
    Sample._make_coverage: every catalogued variant (and every subset of <= 2 of them)
    must end up with the same support in RefSeq terms, whichever strand / offset the build
    puts the gene on (first and last mapped base included)."""
    import itertools
    import c06

    res = new_result(cfg)
    eng = Engine(name="c13p")
    genes, byref = _pileup_tables(cfg["gene"])
    # substitutions only: support of catalogued indels is kept in the sample's indel-site
    # table by the read parser (C06), not in the table _make_coverage builds
    ids = sorted(k for k, v in byref.items() if len(v) == 2 and ">" in k[1])
    i1, i2 = z3.Int("v1"), z3.Int("v2")
    n1, n2 = z3.Int("n1"), z3.Int("n2")
    tag = f"pileup/{cfg['gene']}"

    def run():
        a = eng.choose(i1, range(len(ids)))
        b_ = eng.choose(i2, range(a, len(ids)))
        ca = eng.choose(n1, (3, 10))
        cb = eng.choose(n2, (0, 7))
        case = [list(ids[a]), ca, list(ids[b_]), cb]
        return case, _pileup_case(genes, byref, case)

    n = 0
    for dec, pc, (case, out) in eng.explore(run, [], max_paths=100000):
        n += 1
        same = out["hg19"] == out["hg38"]
        ob(res, f"{tag}: the same observations give the same support and depth in both "
                "builds (RefSeq terms) after Sample._make_coverage", "holds" if same
           else "sat")
        if not same:
            res["violations"].append({
                "what": f"{tag}: observations {case} -> hg19 {out['hg19']}, hg38 "
                        f"{out['hg38']}", "key": "pileup:" + cfg["gene"],
                "replay": {"kind": "pileup", "gene": cfg["gene"], "case": list(case)}})
    seen = {}
    for v in res["violations"]:
        seen.setdefault(v["key"], v)
    res["violations"] = list(seen.values())
    res["stats"] = {**dict(eng.stats), "paths": n}
    res["obligations"] = [{"label": o["label"], "status": o["status"], "secs": 0}
                          for o in res["obligations"]]
    return res


def refid(gene, m):
    """RefSeq notation of a loaded variant, derived from its genome key through the
    coordinate maps (not from the notation the loader recorded): the evidence of a site
    is transported between builds by where the bases actually are."""
    if m.op == "_":
        raise KeyError
    from aldy.common import rev_comp

    op, pos = m.op, m.pos
    c2r = gene.chr_to_ref
    try:
        if gene.strand > 0:
            return (c2r[pos], op)
        if ">" in op:
            l, r = op.split(">")
            return (c2r[pos + len(l) - 1], f"{rev_comp(l)}>{rev_comp(r)}")
        if op.startswith("ins"):
            return (c2r[pos + 1], "ins" + rev_comp(op[3:]))
        if "ins" in op:
            d, i = op[3:].split("ins")
            return (c2r[pos + len(d) - 1], f"del{rev_comp(d)}ins{rev_comp(i)}")
        d = op[3:]
        return (c2r[pos + len(d) - 1], "del" + rev_comp(d))
    except KeyError:
        info = gene.mutations[m.pos, m.op]
        return (info[3], info[4])


def site_id(gene, pos):
    return gene.chr_to_ref.get(pos)


def evidence(genes, muts_by_build, cn_list, restrict=None, only=None):
    """symbols keyed by RefSeq id; returns per build (counts, totals) + base, xs"""
    g19 = genes["hg19"]
    ids = sorted({refid(g19, m) for m in muts_by_build["hg19"]})
    if only:
        # evidence at these RefSeq positions only (the other variants have no reads)
        ids = [i for i in ids if i[0] in only]
    if restrict:
        ids = ids[::max(1, len(ids) // restrict)][:restrict]
    xs = {i: z3.Real(f"x_{i[0]}_{i[1]}") for i in ids}
    base = []
    out = {}
    for b, gene in genes.items():
        counts, totals = {}, {}
        mm = [m for m in muts_by_build[b] if refid(gene, m) in xs]
        for m in mm:
            totals[m.pos] = D * stagelib.position_cn(gene, cn_list, m.pos)
        bypos = collections.defaultdict(list)
        for m in mm:
            x = xs[refid(gene, m)]
            counts[m] = S(x)
            if b == "hg19":
                base += [x >= 0, x <= totals[m.pos]]
            if not stagelib.is_ins(m):
                bypos[m.pos].append(x)
        for pos in {m.pos for m in mm}:
            alts = bypos.get(pos, [])
            if alts:
                base.append(z3.Sum(alts) <= totals[pos])
            counts[Mutation(pos, "_")] = S(totals[pos] - (z3.Sum(alts) if alts else 0))
        out[b] = (counts, totals, mm)
    return out, base, xs


def pattern(eng, xs):
    pat = []
    for i, x in sorted(xs.items(), key=lambda kv: str(kv[0])):
        st, _ = eng.prove([], x > 0)
        if st == "unsat":
            pat.append(i)
        else:
            st2, _ = eng.prove([], x <= 0)
            if st2 != "unsat":
                return None
    return tuple(pat)


def canon(gene, raw):
    """build-independent name of a model variable (variant positions -> RefSeq)."""
    import re

    def sub_mut(mo):
        pos, op = int(mo.group(1)), mo.group(2)
        return f"{pos}|{op}"

    # variables mention variants either as '<pos+1>.<op>' (str(Mutation)) or '<pos>_<op>'
    for (pos, op), info in gene.mutations.items():
        ri = refid(gene, Mutation(pos, op))
        rid = f"<{ri[0]}:{ri[1]}>"
        raw = raw.replace(f"{pos + 1}.{op}", rid).replace(f"_{pos}_{op}", f"_{rid}")
    # reference-site variables E_<pos>_REF
    m = re.match(r"^(ABS_)?E_(\d+)_REF$", raw)
    if m:
        raw = f"{m.group(1) or ''}E_<site {gene.chr_to_ref.get(int(m.group(2)))}>_REF"
    return raw


def compare(eng, res, tag, g19, g38, m19, m38, cfg, xs, replay_kind):
    names19 = {canon(g19, v.raw) if not v.raw.startswith("ABS_") else
               "ABS_" + canon(g19, _unesc(m19, v)): v for v in m19.vars}
    names38 = {canon(g38, v.raw) if not v.raw.startswith("ABS_") else
               "ABS_" + canon(g38, _unesc(m38, v)): v for v in m38.vars}
    only19 = sorted(set(names19) - set(names38))
    only38 = sorted(set(names38) - set(names19))
    # reference-site variables may legitimately be grouped differently (an insertion is
    # keyed at the neighbouring base on the other strand); they are existentially
    # quantified away below, everything else must correspond one to one
    loose = lambda n: "_REF" in n  # noqa
    hard = [n for n in only19 + only38 if not loose(n)]
    ob(res, f"{tag}: same selector / flag / error variables in both builds",
       "holds" if not hard else "sat", only_hg19=only19[:4], only_hg38=only38[:4])
    if hard:
        violation(eng, res, cfg, xs, [], f"model variables differ between builds: {hard[:4]}",
                  replay_kind)
        return
    # binaries are identified; error variables of the other model are existentially
    # quantified: "for every point of one model the other model has a point with the
    # same binaries and an objective that is not larger" (both directions => equal
    # feasible sets over the binaries and equal minimal objectives)
    subs = [(names38[n].zv, names19[n].zv) for n in names38
            if n in names19 and names38[n].kind == "B"]
    c19 = z3.And(m19.z3_constraints())
    c38 = z3.substitute(z3.And(m38.z3_constraints()), *subs)
    o19 = m19.obj_z3()
    o38 = z3.substitute(m38.obj_z3(), *subs)
    cont19 = [v.zv for v in m19.vars if v.kind != "B"]
    cont38 = [v.zv for v in m38.vars if v.kind != "B"]
    for a, b, oa, ob_, fb, lab in ((c19, c38, o19, o38, cont38, "hg19 => hg38"),
                                   (c38, c19, o38, o19, cont19, "hg38 => hg19")):
        # the minor model's tie-breaker (1 + index/1e6 on additions) follows set iteration
        # order and is not part of the claim: objectives are compared up to 1e-3
        slack = symx.q(1e-3) if replay_kind == "minor" else z3.RealVal(0)
        goal = z3.And(b, ob_ <= oa + slack)
        if fb:
            goal = z3.Exists(fb, goal)
        t0 = time.time()
        st, mdl = eng.prove([a], goal)
        ob(res, f"{tag}: {lab}: every feasible point has a counterpart with the same "
                "binaries and no larger objective", st, time.time() - t0)
        if st == "sat":
            violation(eng, res, cfg, xs, [a],
                      f"{lab}: feasible sets / objectives differ between builds",
                      replay_kind)
            return


def _unesc(model, v):
    src = [w for w in model.vars if w.name == v.raw[4:]]
    return src[0].raw if src else v.raw[4:]


# ------------------------------------------------------------------ stages


def explore_build(eng, base, fn, xs):
    out = {}
    for dec, pc, m in eng.explore(fn, base, max_paths=20000):
        pat = pattern(eng, xs)
        if pat is not None:
            out[pat] = m
    return out


def run_major(cfg):
    import aldy.major as major
    import aldy.common

    res = new_result(cfg)
    genes = {b: gengene.load(cfg["gene"], b) for b in ("hg19", "hg38")}
    cn_list = list(cfg["cn"])
    muts = {b: stagelib.core_variants(g) for b, g in genes.items()}
    ev, base, xs = evidence(genes, muts, cn_list, cfg.get("support"), cfg.get("only"))
    if cfg.get("support"):
        base += [x > 0 for x in xs.values()]
    eng = Engine(name="c13", timeout_ms=120000)
    models = {}
    for b, gene in genes.items():
        counts, totals, _ = ev[b]
        cov = stagelib.SymCoverage(gene, Profile("v"), counts, totals)
        cn_sol = CNSolution(gene, 0, cn_list)

        def run():
            aldy.common.json.clear()
            with symx.install() as inst:
                major.estimate_major(gene, cov, cn_sol, "z3")
                return inst.models[-1] if inst.models else None

        models[b] = explore_build(eng, base, run, xs)
    finish(eng, res, cfg, genes, models, xs, base, f"major/{cfg['gene']}/{','.join(cn_list)}",
           "major")
    return res


def run_minor(cfg):
    import aldy.minor as minor
    import aldy.common

    res = new_result(cfg)
    genes = {b: gengene.load(cfg["gene"], b) for b in ("hg19", "hg38")}
    cn_list = list(cfg["cn"])
    mj = dict(cfg["major"])
    muts = {b: c04.considered(g, mj) for b, g in genes.items()}
    ev, base, xs = evidence(genes, muts, cn_list)
    eng = Engine(name="c13", timeout_ms=120000)
    models = {}
    saved = minor.__dict__.get("max")
    minor.max = symx.smax
    try:
        for b, gene in genes.items():
            counts, totals, _ = ev[b]
            cov = stagelib.SymCoverage(gene, Profile("v"), counts, totals)
            cn_sol = CNSolution(gene, 0, cn_list)
            ms = MajorSolution(0, {SolvedAllele(gene, a): c for a, c in mj.items()},
                               cn_sol, [])

            def run():
                aldy.common.json.clear()
                with symx.install() as inst:
                    minor.estimate_minor(gene, cov, [ms], "z3")
                    return inst.models[-1] if inst.models else None

            models[b] = explore_build(eng, base, run, xs)
    finally:
        if saved is None:
            minor.__dict__.pop("max", None)
        else:
            minor.max = saved
    tag = f"minor/{cfg['gene']}/" + "+".join(f"{k}x{v}" for k, v in mj.items())
    finish(eng, res, cfg, genes, models, xs, base, tag, "minor")
    return res


def finish(eng, res, cfg, genes, models, xs, base, tag, kind):
    p19, p38 = set(models["hg19"]), set(models["hg38"])
    ob(res, f"{tag}: the same support patterns are feasible in both builds",
       "holds" if p19 == p38 else "sat", n=len(p19))
    eng.pc = list(base)
    if p19 != p38:
        violation(eng, res, cfg, xs, [], "a variant's evidence reaches the stage in one "
                  "build only (support patterns differ)", kind)
    for pat in sorted(p19 & p38, key=str):
        m19, m38 = models["hg19"][pat], models["hg38"][pat]
        eng.pc = list(base) + [xs[i] > 0 if i in pat else xs[i] <= 0 for i in xs]
        if (m19 is None) != (m38 is None):
            ob(res, f"{tag}: a model is built in both builds or in neither", "sat")
            violation(eng, res, cfg, xs, [], "a stage builds a model in one build only", kind)
            continue
        if m19 is None:
            continue
        compare(eng, res, f"{tag}/{len(pat)} supported", genes["hg19"], genes["hg38"], m19,
                m38, cfg, xs, kind)
    res["stats"] = {**dict(eng.stats), **res["stats"]}
    res["samples"].append({"config": tag, "patterns": len(p19)})


def run_cn(cfg):
    import aldy.cn as cn
    import aldy.common
    import c03

    res = new_result(cfg)
    genes = {b: gengene.load(cfg["gene"], b) for b in ("hg19", "hg38")}
    g19 = genes["hg19"]
    eng = Engine(name="c13", timeout_ms=120000)
    tag = f"cn/{cfg['gene']}/max_cn={cfg['max_cn']}"
    same_regions = (genes["hg19"].unique_regions == genes["hg38"].unique_regions)
    ob(res, f"{tag}: same copy-number regions in both builds", "holds" if same_regions
       else "sat")
    c0 = {r: z3.Real(f"c0_{r}") for r in g19.unique_regions}
    c1 = {r: z3.Real(f"c1_{r}") for r in g19.unique_regions}
    base = []
    for r in g19.unique_regions:
        base += [c0[r] >= 0, c0[r] <= 8, c1[r] >= 0, c1[r] <= 8]
    models = {}
    saved = cn.__dict__.get("max")
    cn.max = c03.cn_max
    sd = (S.__truediv__, symx._num_div)
    c03.install_abstraction()
    try:
        for b, gene in genes.items():
            rc = {r: (S(c0[r]), S(c1[r]) if len(gene.regions) > 1 else 0.0)
                  for r in gene.unique_regions}

            def run():
                aldy.common.json.clear()
                c03.MaxS.counter[0] = 0
                c03.MaxS.scales = []
                with symx.install() as inst:
                    cn.solve_cn_model(gene, Profile("v"), gene.cn_configs, cfg["max_cn"],
                                      rc, "z3")
                    return inst.models[-1], list(c03.MaxS.scales)

            for dec, pc, mm in eng.explore(run, base):
                models[b] = mm
    finally:
        if saved is None:
            cn.__dict__.pop("max", None)
        else:
            cn.max = saved
        S.__truediv__, symx._num_div = sd
    (m19, s19), (m38, s38) = models["hg19"], models["hg38"]
    eng.pc = list(base)
    # identify the abstraction symbols of the two runs region by region
    subs = []
    for a, b in zip(s19, s38):
        subs.append((b.inv, a.inv))
        for (qa, _), (qb, _) in zip(a.prods.values(), b.prods.values()):
            subs.append((qb, qa))
    n19 = {v.raw: v for v in m19.vars}
    n38 = {v.raw: v for v in m38.vars}
    okn = set(n19) == set(n38)
    ob(res, f"{tag}: same structure / error variables in both builds",
       "holds" if okn else "sat")
    if okn:
        subs += [(n38[n].zv, n19[n].zv) for n in n38]
        c19_ = z3.And(m19.z3_constraints())
        c38_ = z3.substitute(z3.And(m38.z3_constraints()), *subs)
        o38_ = z3.substitute(m38.obj_z3(), *subs)
        for a, b, lab in ((c19_, c38_, "hg19 => hg38"), (c38_, c19_, "hg38 => hg19")):
            t0 = time.time()
            st, _ = eng.prove([a], z3.And(b, m19.obj_z3() == o38_))
            ob(res, f"{tag}: {lab}: every feasible structure assignment is feasible with "
                    "the same objective", st, time.time() - t0)
            if st == "sat":
                res["violations"].append({
                    "what": f"{tag}: structure models differ between builds",
                    "key": "cn", "replay": {"kind": "cn", "gene": cfg["gene"],
                                            "max_cn": cfg["max_cn"]}})
    res["stats"] = {**dict(eng.stats), **res["stats"]}
    return res


# ------------------------------------------------------------------ counterexamples


def vkey(kind, cfg):
    mj = cfg.get("major")
    tail = "+".join(f"{k}x{v}" for k, v in mj.items()) if mj else ",".join(cfg["cn"])
    return f"{kind}:{cfg['gene']}:{tail}"


def violation(eng, res, cfg, xs, hyps, what, kind):
    tried = 0
    intc = [z3.IsInt(x) for x in xs.values()]
    for extra in (intc, []):
        st, mm = eng.satisfiable(list(hyps) + extra, timeout_ms=90000)
        if st != "sat":
            continue
        vals = {f"{i[0]}|{i[1]}": float(symx.model_value(mm, x)) for i, x in xs.items()}
        rp = {"kind": kind, "gene": cfg["gene"], "cn": cfg["cn"],
              "major": cfg.get("major"), "counts": vals}
        tried += 1
        okk, msg = replay(rp)
        res["stats"]["replays"] = res["stats"].get("replays", 0) + 1
        if okk:
            res["violations"].append({"what": f"{what}: {msg}", "key": vkey(kind, cfg),
                                      "replay": rp})
            return True
    # try a few canonical tables: every supported variant at one / two copies' worth
    for lvl in (10, 20, 5):
        vals = {f"{i[0]}|{i[1]}": float(lvl) for i in xs}
        st, _ = eng.satisfiable([x == lvl for x in xs.values()])
        rp = {"kind": kind, "gene": cfg["gene"], "cn": cfg["cn"],
              "major": cfg.get("major"), "counts": vals}
        okk, msg = replay(rp)
        tried += 1
        if okk:
            res["violations"].append({"what": f"{what}: {msg}", "key": vkey(kind, cfg),
                                      "replay": rp})
            return True
    res["inconclusive"].append(f"{what}: {tried} concrete tables gave the same results in "
                               "both builds")
    ob(res, f"UNREPRODUCED counterexample: {what}", "inconclusive")
    return False


def replay(o):
    """Real stage + CBC on both builds; results compared in RefSeq terms."""
    import aldy.major as major
    import aldy.minor as minor
    import aldy.cn as cn

    if o["kind"] == "build":
        probs = build_case(o["file"], o["detected"], o["given"], o["multi"])
        return bool(probs), "; ".join(probs)
    if o["kind"] == "cn":
        return True, "structure models differ (symbolic)"
    if o["kind"] == "notation":
        genes, byref = _pileup_tables(o["gene"])
        out = {b: g.get_refseq(byref[tuple(o["rid"])][b]) for b, g in genes.items()}
        return out["hg19"] != out["hg38"], f"{out}"
    if o["kind"] == "infer":
        genes = {b: gengene.load(o["gene"], b) for b in ("hg19", "hg38")}
        out = _infer_case(genes, o["r"], o["alt"])
        return out["hg19"] != out["hg38"], f"hg19 {out['hg19']}, hg38 {out['hg38']}"
    if o["kind"] == "pileup":
        genes, byref = _pileup_tables(o["gene"])
        out = _pileup_case(genes, byref, o["case"])
        return out["hg19"] != out["hg38"], f"hg19 {out['hg19']}, hg38 {out['hg38']}"
    outs = {}
    for b in ("hg19", "hg38"):
        gene = gengene.load(o["gene"], b)
        cn_list = list(o["cn"])
        counts = {}
        byid = {}
        for (pos, op), info in gene.mutations.items():
            ri = refid(gene, Mutation(pos, op))
            byid[f"{ri[0]}|{ri[1]}"] = Mutation(pos, op)
        bypos = collections.defaultdict(int)
        sites = set()
        for k, v in o["counts"].items():
            m = byid.get(k)
            if m is None:
                continue
            sites.add(m.pos)
            c = int(round(v))
            if c > 0:
                counts[m] = c
                if not stagelib.is_ins(m):
                    bypos[m.pos] += c
        for pos in sites:
            t = D * stagelib.position_cn(gene, cn_list, pos)
            if t - bypos.get(pos, 0) > 0:
                counts[Mutation(pos, "_")] = t - bypos.get(pos, 0)
        prof = Profile("r")
        cov = stagelib.concrete_coverage(gene, prof, counts)
        cn_sol = CNSolution(gene, 0, cn_list)
        try:
            if o["kind"] == "major":
                sols = major.estimate_major(gene, cov, cn_sol, "any")
                outs[b] = sorted(
                    (round(s.score, 6),
                     tuple(sorted(a.major for a, c in s.solution.items() for _ in range(c))),
                     tuple(sorted(f"{gene.mutations[m][3]}{gene.mutations[m][4]}"
                                  for m in s.added))) for s in sols)
            else:
                ms = MajorSolution(0, {SolvedAllele(gene, a): c
                                       for a, c in o["major"].items()}, cn_sol, [])
                sols = minor.estimate_minor(gene, cov, [ms], "any")

                def rs(m):
                    return f"{gene.mutations[m][3]}{gene.mutations[m][4]}"

                outs[b] = sorted((round(s.score, 4), tuple(sorted(
                    (a.minor, tuple(sorted(rs(m) for m in a.added)),
                     tuple(sorted(rs(m) for m in a.missing))) for a in s.solution)))
                    for s in sols)
        except Exception as e:  # noqa
            outs[b] = f"raised {type(e).__name__}: {e}"
    if o["kind"] == "minor" and not isinstance(outs["hg19"], str) and \
            not isinstance(outs["hg38"], str):
        # several optimal assignments may exist: compare scores and existence
        s19 = [x[0] for x in outs["hg19"]]
        s38 = [x[0] for x in outs["hg38"]]
        diff = s19 != s38
    else:
        diff = outs["hg19"] != outs["hg38"]
    return diff, (f"{o['kind']} stage on counts {o['counts']}: hg19 -> {outs['hg19']} ; "
                  f"hg38 -> {outs['hg38']}")
