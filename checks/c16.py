"""
C16 -- VCF genotypes are turned into matching evidence for every variant kind.

The real Sample.__init__ -> _load_vcf -> _make_coverage -> Coverage run on an in-memory
VariantFile whose records are generated from catalogued variants (written as standard
left-anchored VCF records) and whose genotype fields are z3 variables (each of the two GT
slots in {missing, 0, 1, 2}, phased or not, sample index), concretised path by path by the
engine (solver-driven exhaustive exploration).  On each path the resulting coverage is
compared with the specification: support = 10 x alternate copies, reference support at
the site reduced accordingly (20 in total), sites without a record = 20 reference
observations, REF different from the reference re-expressed, non-diploid / missing
genotypes and records of other shapes ignored without an exception.
"""
import collections
import z3

import symx
import gengene
from symx import Engine
from vcommon import new_result, ob
from aldy.gene import Mutation
from aldy.profile import Profile
from aldy.common import AldyException

PROPERTY = "C16"
LEVEL = "exploration"
FUNCTIONS = ["aldy.sam.Sample.__init__", "aldy.sam.Sample._load_vcf (get_mut)",
             "aldy.sam.Sample._make_coverage", "aldy.coverage.Coverage.{__init__,coverage,total}",
             "aldy.genotype.genotype (VCF branch fixes the structure, via C10/C19 harness)"]
STUBS = ["pysam.VariantFile -> in-memory file with header.contigs/samples and fetch(); "
         "sam.detect_genome -> 'vcf'"]
OUTSIDE = ["tabix/bgzip reading; multi-record haplotypes other than adjacent records of a "
           "catalogued multi-nucleotide substitution"]
ASSUMPTIONS = ["insertion record: REF = anchor base, ALT = anchor + inserted bases, the "
               "catalogue keys the insertion at the anchor base"]
RULE = ("cases = (catalogued variant x record form x GT slots x sample index x ALT order), enumerated "
        "by the solver; non-trivial = at least one alternate copy; distinct = distinct case")


def BOUNDS(tier):
    return ["genes GA, GB, toy (both builds): every catalogued variant as one VCF record "
            "(SNP, deletion, insertion, MNP as one record and as adjacent records), SNP "
            "records whose REF is the catalogued alternative (REF differs from RefSeq), an "
            "unrelated complex record mixed in",
            "GT slots each in {., 0, 1, 2}; every record lists two ALT alleles, the catalogued "
            "one and one of unsupported shape, in either order (symbolic); 1-2 samples"]


def configs(tier):
    c = []
    genes = ("GA", "GB", "toy") + (("GC", "GD", "GE", "nudt15") if tier == "thorough" else ())
    for g in genes:
        for b in ("hg19", "hg38"):
            c.append({"gene": g, "genome": b})
    return c


def _known_keys():
    import vcommon
    return set(vcommon.load_known().get(PROPERTY, {}))


KNOWN_KEYS = _known_keys()


class FakeRecord:
    def __init__(self, pos1, ref, alts, gts):
        self.pos = pos1
        self.ref = ref
        self.alleles = (ref,) + tuple(alts)
        self.samples = {n: {"GT": gt} for n, gt in gts.items()}


class FakeVCF:
    def __init__(self, contigs, samples, records):
        self.header = type("H", (), {"contigs": contigs, "samples": samples})()
        self.records = records

    def __enter__(self):
        return self

    def __exit__(self, *a):
        return False

    def fetch(self, region=None):
        return iter(self.records)


def records_for(gene, m, form):
    """standard left-anchored VCF records for catalogued variant m; list of (pos1, ref,
    alt) (several for the 'adjacent' form) -- None if the form does not apply."""
    op = m.op
    # precondition: the catalogued reference allele is the reference (C08 corpus; the
    # toy database violates it for some variants)
    if ">" in op and not all(a == "." or gene[m.pos + i] == a
                             for i, a in enumerate(op.split(">")[0])):
        return None
    if op.startswith("del") and gene[m.pos:m.pos + len(op.split("ins")[0]) - 3] != \
            op.split("ins")[0][3:]:
        return None
    if ">" in op and len(op) == 3:
        if form == "plain":
            return [(m.pos + 1, gene[m.pos], op[2])]
        if form == "refmismatch":
            # the assembly the VCF was called against carries the catalogued ALT base at
            # this site: REF = catalogued alt, ALT = the RefSeq base. Genotype 0 then
            # means the catalogued variant, genotype 1 the RefSeq reference.
            return [(m.pos + 1, op[2], gene[m.pos])]
        return None
    if op.startswith("del") and "ins" not in op:
        a = m.pos - 1
        if form == "plain":
            return [(a + 1, gene[a] + op[3:], gene[a])]
        if form == "complex" and len(op) - 3 >= 2:
            # a deletion-insertion record over the bases of the catalogued deletion
            # (REF = anchor + deleted bases, ALT = anchor + another base): a shape the
            # loader does not support, to be ignored
            return [(a + 1, gene[a] + op[3:], gene[a] + ("C" if op[3] != "C" else "G"))]
        return None
    if op.startswith("ins"):
        if form == "plain":
            return [(m.pos + 1, gene[m.pos], gene[m.pos] + op[3:])]
        return None
    if ">" in op:
        l, r = op.split(">")
        ref = gene[m.pos:m.pos + len(l)]
        alt = "".join(b if a != "." else ref[i] for i, (a, b) in enumerate(zip(l, r)))
        if form == "plain":
            return [(m.pos + 1, ref, alt)]
        if form == "adjacent":
            return [(m.pos + 1 + i, ref[i], r[i]) for i in range(len(l)) if l[i] != "."]
    return None


def load(gene, records, samples, idx):
    import aldy.sam as sam_mod

    saved = (sam_mod.detect_genome, sam_mod.pysam.VariantFile)
    sam_mod.detect_genome = lambda p: ("vcf", None)
    sam_mod.pysam.VariantFile = lambda path: FakeVCF(
        [gene.chr], samples, [FakeRecord(p, r, a, g) for p, r, a, g in records])
    try:
        prof = Profile("user_provided", cn_solution=["1", "1"], vcf_sample_idx=idx)
        return sam_mod.Sample(gene, prof, "x.vcf.gz")
    finally:
        sam_mod.detect_genome, sam_mod.pysam.VariantFile = saved


def run_config(cfg):
    res = new_result(cfg)
    gene = gengene.load(cfg["gene"], cfg["genome"])
    muts = sorted(Mutation(*m) for m in gene.mutations)
    eng = Engine(name="c16")
    vi = z3.Int("variant")
    fm = z3.Int("form")
    g1, g2 = z3.Int("gt1"), z3.Int("gt2")
    si = z3.Int("sample")
    ap = z3.Int("altpos")
    base = [ap >= 0, ap < 2, vi >= 0, vi < len(muts), fm >= 0, fm < 4, g1 >= -1, g1 <= 2, g2 >= -1, g2 <= 2,
            si >= 0, si < 2]
    tag = f"{cfg['gene']}/{cfg['genome']}"
    forms = ["plain", "adjacent", "refmismatch", "complex"]

    def run():
        m = muts[eng.choose(vi, range(len(muts)))]
        form = forms[eng.choose(fm, range(4))]
        a = eng.choose(g1, range(-1, 3))
        b = eng.choose(g2, range(-1, 3))
        s = eng.choose(si, range(2))
        recs = records_for(gene, m, form)
        if recs is None:
            raise symx.PathAbort()
        altpos = eng.choose(ap, range(2))
        return check_case(gene, m, form, recs, a, b, s, altpos)

    n = 0
    for dec, pc, (case, probs) in eng.explore(run, base, max_paths=100000):
        n += 1
        for asp in ("support", "reference", "robust"):
            ps = [p for p in probs if p[0] == asp]
            ob(res, f"{tag}: {asp}", "holds" if not ps else (
                "known-finding" if all(p[1] in KNOWN_KEYS for p in ps) else "sat"))
        kinds = {}
        for p in probs:
            kinds.setdefault(p[1], p)
        for k, p in kinds.items():
            res["violations"].append({"what": f"{tag}: {case}: {p[2]}", "key": k,
                                      "replay": {"gene": cfg["gene"], "genome": cfg["genome"],
                                                 "case": case}})
        if len(res["samples"]) < 2:
            res["samples"].append({"case": case, "problems": [p[2] for p in probs][:2]})
    seen = {}
    for v in res["violations"]:
        seen.setdefault(v["key"], v)
    res["violations"] = list(seen.values())
    res["stats"] = dict(eng.stats)
    res["stats"]["distinct_cases"] = n
    res["obligations"] = [{"label": o["label"], "status": o["status"], "secs": 0}
                          for o in res["obligations"]]
    return res


def kind_of(m):
    op = m.op
    if op.startswith("ins"):
        return "ins"
    if op.startswith("del"):
        return "delins" if "ins" in op else "del"
    return "snp" if len(op) == 3 else "mnp"


def check_case(gene, m, form, recs, a, b, s, altpos=0):
    """altpos: position of the catalogued ALT among the record's two ALT alleles (the other
    one, '<X>', has a shape the loader does not support); GT index altpos + 1 denotes it."""
    gt = tuple(None if x == -1 else x for x in (a, b))
    case = {"variant": [m.pos, m.op], "form": form, "gt": list(gt), "sample": s,
            "altpos": altpos}
    probs = []
    samples = ["S0", "S1"]
    # the other sample is homozygous reference; an unrelated complex record is mixed in
    other = (0, 0)
    records = []
    for (p, r, alt) in recs:
        gts = {samples[s]: gt, samples[1 - s]: other}
        records.append((p, r, [alt, "<X>"] if altpos == 0 else ["<X>", alt], gts))
    far = max(gene.chr_to_ref) - 3
    records.append((far + 1, gene[far:far + 2], [gene[far] + "TT" + gene[far + 1]],
                    {samples[0]: (0, 1), samples[1]: (0, 1)}))
    try:
        smp = load(gene, records, samples, s)
    except Exception as e:  # noqa
        return case, [("robust", "vcf-exception", f"loading raised {type(e).__name__}: {e}")]
    cov = smp.coverage
    live = [x for x in gt if x is not None]
    diploid = len(live) == 2
    carrier = 0 if form == "refmismatch" else 1 + altpos  # GT index denoting the variant
    k = sum(1 for x in live if x == carrier) if diploid else 0
    if form == "complex":
        k = 0  # records of any other shape are ignored
    kd = kind_of(m)
    got = cov.coverage(m)
    if got != 10 * k and not (got == 0 and form in ("plain", "adjacent")):
        # the recorded findings are "no support at all" for insertions / multi-nucleotide
        # substitutions in their standard spelling; any other wrong value is new
        probs.append(("support", f"vcf-support-new-{kd}-{form}",
                      f"{m} written as {recs} with GT {gt}: support {got}, expected {10 * k}"))
    elif got != 10 * k:
        probs.append(("support", f"vcf-support-{kd}" + ("-adjacent" if form == "adjacent"
                                                         else "-refmismatch"
                                                         if form == "refmismatch" else
                                                         "-complex" if form == "complex"
                                                         else ""),
                      f"{m} written as {recs} with GT {gt}: support {got}, expected {10 * k}"))
    if smp.name != samples[s]:
        probs.append(("robust", "vcf-sample", f"sample name {smp.name}"))
    if kd in ("snp", "mnp", "del") and got == 10 * k:
        k2 = k  # an unrelated / unsupported ALT is ignored: it leaves the reference alone
        ref = cov.coverage(Mutation(m.pos, "_"))
        if ref != 20 - 10 * k2:
            probs.append(("reference", f"vcf-ref-{kd}",
                          f"{m} GT {gt}: reference support {ref} at the site, expected "
                          f"{20 - 10 * k2}"))
        if kd == "mnp" and k:
            # the other positions of a complete multi-nucleotide substitution go back to
            # the reference
            l = m.op.split(">")[0]
            for i in range(1, len(l)):
                if l[i] != "." and cov.total(m.pos + i) != 20:
                    probs.append(("reference", "vcf-ref-mnp-tail",
                                  f"{m}: depth {cov.total(m.pos + i)} at offset {i}"))
    # a site without record
    free = next(p for p in sorted(gene.chr_to_ref) if all(abs(p - x.pos) > 6 for x in
                                                          map(lambda t: Mutation(*t),
                                                              gene.mutations))
                and abs(p - far) > 6)
    if cov.coverage(Mutation(free, "_")) != 20 or cov.total(free) != 20:
        probs.append(("reference", "vcf-norecord",
                      f"site {free} without a record has {cov.total(free)} observations"))
    return case, probs


def replay(o):
    gene = gengene.load(o["gene"], o["genome"])
    c = o["case"]
    m = Mutation(*c["variant"])
    recs = records_for(gene, m, c["form"])
    gt = [(-1 if x is None else x) for x in c["gt"]]
    case, probs = check_case(gene, m, c["form"], recs, gt[0], gt[1], c["sample"],
                             c.get("altpos", 0))
    return bool(probs), "; ".join(p[2] for p in probs[:3])
