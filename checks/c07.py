"""
C07 -- copy-number signal is depth-normalised: a two-copy reference reads as 2.0.

  scale    the real Coverage._normalize_coverage on symbolic per-position depths, symbolic
           neutral depths, symbolic profile rows and neutral_value (exact real
           arithmetic): k-fold deeper sample => identical region values; gene-only k-fold
           => k-fold values; profile sample fed back => 2 in every region the profile
           covers; profile row 0 => 0.0; empty neutral region / zero neutral_value =>
           AldyException; the structure stage receives exactly these values
  float    the same real statements executed on IEEE-754 double proxies (z3 FloatingPoint,
           round-nearest-even): sample == profile sample => exactly 2.0 for all positive
           finite doubles -- a statement about the float code, not its real shadow
  walkers  profile generation, the sample's neutral-region walker and the pileup give the
           same per-position depth for the same read (symbolic CIGAR shapes, exploration)
  depth    Coverage.total excludes insertions; average_coverage / diploid_avg_coverage
           are the documented averages (symbolic depths)
"""
import time
import collections
import z3

import symx
import gengene
import stagelib
from symx import S, SB, Engine
from vcommon import new_result, ob
from aldy.common import AldyException, GRange
from aldy.profile import Profile
from aldy.coverage import Coverage
from aldy.gene import Mutation

PROPERTY = "C07"
LEVEL = "model_checking"
FUNCTIONS = ["aldy.profile.Profile.get_sam_profile_data", "aldy.sam.Sample._load_cn_region",
             "aldy.coverage.Coverage.{_normalize_coverage,region_coverage,"
             "diploid_avg_coverage,average_coverage,total}", "aldy.cn.estimate_cn "
             "(region_cov assembly, via C03 wrapper)", "aldy.sam._in_region",
             "aldy.profile.Profile.load (profile-file route)"]
STUBS = ["Coverage.total -> symbolic per-position depth (scale part); float(): "
         "aldy.coverage.float shadowed; float part: numbers are z3 Float64 proxies and "
         "the gene is a stub with single-position regions (so that sum() is exact)"]
OUTSIDE = [
           "BAM fetch windows / htslib; the approximate NA10860 claim",
           "custom neutral region parsing (regex on text)"]
ASSUMPTIONS = ["scale part: exact real arithmetic (floats as reals); float part: IEEE-754 "
               "binary64 RNE, operands positive finite normal doubles"]


def BOUNDS(tier):
    return ["genes toy, GA, GC (both builds): every region, per-position depths symbolic "
            "reals in [0,1000]; profile rows symbolic > 0 (>= 0 for the first region of each "
            "gene); neutral region of 3 positions; k in {2,3,5} and symbolic "
            "real k >= 1", "float lemma: all doubles in [1, 2^60] for the region sum and "
            "the neutral sum (one region, 1-position ranges)"]


def configs(tier):
    c = []
    for g in ("toy", "GA", "GC"):
        for b in ("hg19", "hg38"):
            for k in (["2", "sym"] if tier == "quick" else ["2", "3", "5", "sym"]):
                c.append({"kind": "scale", "gene": g, "genome": b, "k": k})
    c.append({"kind": "float", "solver": "z3"})
    if tier == "thorough":
        c.append({"kind": "float", "solver": "cvc5"})
    c.append({"kind": "depth"})
    # which reads count towards the neutral / gene depth: the locus test on symbolic read
    # and region intervals (shared harness with C06)
    c.append({"kind": "region"})
    # the three CIGAR depth walkers must agree (shared harness with C06)
    for b in ("hg19", "hg38"):
        c.append({"kind": "walkers", "genome": b, "nops": 2,
                  **({"maxsz": 3, "starts": 5} if tier == "thorough" else
                     {"maxsz": 2, "starts": 4})})
    return c


def run_config(cfg):
    if cfg["kind"] == "walkers":
        import c06
        return c06.run_walkers(cfg)
    if cfg["kind"] == "region":
        import c06
        return c06.run_region(cfg)
    return globals()["run_" + cfg["kind"]](cfg)


class DepthCov(stagelib.SymCoverage):
    """symbolic per-position depth; everything else real."""

    def __init__(self, gene, profile, depth, cnv):
        stagelib.SymCoverage.__init__(self, gene, profile, {}, {})
        self._depth = depth
        self._cnv_coverage = cnv

    def total(self, m):
        pos = m.pos if hasattr(m, "pos") else m
        return self._depth.get(pos, 0)


def run_scale(cfg):
    import aldy.coverage as cov_mod

    res = new_result(cfg)
    gene = gengene.load(cfg["gene"], cfg["genome"])
    eng = Engine(name="c07", timeout_ms=120000)
    tag = f"scale/{cfg['gene']}/{cfg['genome']}/k={cfg['k']}"
    base = []
    # one symbolic depth per position of every region (gene and pseudogene)
    depth = {}
    for gi, gr in enumerate(gene.regions):
        for r, rng in gr.items():
            for i in range(rng.start, rng.end):
                v = z3.Real(f"d_{i}")
                depth[i] = v
                base += [v >= 0, v <= 1000]
    nreg = GRange(gene.chr, 10, 13)
    cnv = {i: z3.Real(f"n_{i}") for i in range(10, 13)}
    base += [z3.And(v >= 0, v <= 1000) for v in cnv.values()]
    prow = {(gi, r): z3.Real(f"p_{gi}_{r}") for gi, gr in enumerate(gene.regions)
            for r in gr}
    # a zero profile row forks the path: allow it for the first region of each gene only
    firsts = {(gi, next(iter(gr))) for gi, gr in enumerate(gene.regions)}
    base += [(v >= 0) if key in firsts else (v > 0) for key, v in prow.items()]
    nv = z3.Real("neutral_value")
    base += [nv >= 0]
    if cfg["k"] == "sym":
        k = z3.Real("k")
        base += [k >= 1, k <= 100]
    else:
        k = z3.RealVal(int(cfg["k"]))
    data = {gene.name: {}}
    for (gi, r), v in prow.items():
        data[gene.name].setdefault(r, [0.0] * len(gene.regions))[gi] = S(v)

    def mk(dmul, nmul, self_profile=False):
        prof = Profile("p", nreg, data)
        prof.neutral_value = S(nv)
        d = {i: S(v * dmul) for i, v in depth.items()}
        n = collections.defaultdict(int, {i: S(v * nmul) for i, v in cnv.items()})
        return DepthCov(gene, prof, d, n)

    def run():
        out = []
        for dmul, nmul in ((1, 1), (k, k), (k, 1)):
            c = mk(dmul, nmul)
            try:
                c._normalize_coverage()
                out.append(("ok", c))
            except AldyException as e:
                out.append(("raise", str(e)))
            except Exception as e:  # noqa
                out.append(("crash", f"{type(e).__name__}: {e}"))
        return out

    nsum = z3.Sum(list(cnv.values()))
    for dec, pc, out in eng.explore(run, base, max_paths=5000):
        (s1, c1), (s2, c2), (s3, c3) = out
        if "crash" in (s1, s2, s3):
            ob(res, f"{tag}: normalisation does not crash", "sat")
            res["violations"].append({"what": f"{tag}: crash {c1 if s1=='crash' else c2}",
                                      "key": "crash", "replay": replay_payload(cfg, None)})
            continue
        t0 = time.time()
        if s1 == "raise":
            s_, mdl = eng.prove([], z3.Or(nsum == 0, nv == 0))
            ob(res, f"{tag}: rejected only with an empty neutral region or zero "
                    "neutral_value", s_, time.time() - t0)
            if s_ == "sat":
                report(res, cfg, mdl, depth, cnv, prow, nv, k, "sample rejected although "
                       "the neutral region has reads")
            continue
        s_, mdl = eng.prove([], z3.And(nsum > 0, nv > 0))
        ob(res, f"{tag}: normalised only with a non-empty neutral region", s_)
        if s_ == "sat":
            report(res, cfg, mdl, depth, cnv, prow, nv, k, "sample with empty neutral "
                   "region / zero neutral value was normalised")
            continue
        goals_inv, goals_lin, goals_spec = [], [], []
        for gi, gr in enumerate(gene.regions):
            for r, rng in gr.items():
                v1 = symx.tz(c1.region_coverage(gi, r))
                ssum = z3.Sum([depth[i] for i in range(rng.start, rng.end)]
                              or [z3.RealVal(0)])
                p = prow[gi, r]
                # documented value: (neutral_value / neutral depth) * region depth /
                # (profile row / 2); 0 where the profile has no depth
                spec = z3.If(p == 0, z3.RealVal(0), nv * ssum * 2 / (nsum * p))
                goals_spec.append(v1 == spec)
                if s2 == "ok":
                    goals_inv.append(symx.tz(c2.region_coverage(gi, r)) == v1)
                if s3 == "ok":
                    goals_lin.append(symx.tz(c3.region_coverage(gi, r)) == k * v1)
        for label, goals, key in (
                ("value = ratio * region depth / (profile/2), 0 where the profile is 0",
                 goals_spec, "spec"),
                ("a k-fold deeper sample has identical region values", goals_inv, "inv"),
                ("gene-only k-fold depth gives k-fold values", goals_lin, "lin")):
            # one small non-linear query per region (the conjunction does not finish)
            t0 = time.time()
            worst, wm = "unsat", None
            for g_ in (goals or [z3.BoolVal(False)]):
                s_, mdl = eng.prove([], g_, timeout_ms=60000)
                if s_ == "sat":
                    worst, wm = "sat", mdl
                    break
                if s_ != "unsat":
                    worst = "unknown"
            ob(res, f"{tag}: {label}", worst, time.time() - t0, regions=len(goals))
            if worst == "sat":
                report(res, cfg, wm, depth, cnv, prow, nv, k, label)
        # self-profile: profile rows and neutral value are the sample's own sums
        selfh = [nv == nsum]
        for gi, gr in enumerate(gene.regions):
            for r, rng in gr.items():
                selfh.append(prow[gi, r] == z3.Sum([depth[i] for i in
                                                    range(rng.start, rng.end)]
                                                   or [z3.RealVal(0)]))
        g2 = []
        for gi, gr in enumerate(gene.regions):
            for r in gr:
                g2.append(z3.Or(prow[gi, r] == 0,
                                symx.tz(c1.region_coverage(gi, r)) == 2))
        t0 = time.time()
        s_, mdl = eng.prove(selfh, z3.And(g2))
        ob(res, f"{tag}: the profile's own sample reads as 2 in every covered region", s_,
           time.time() - t0)
        if s_ == "sat":
            report(res, cfg, mdl, depth, cnv, prow, nv, k, "self-profile sample does not "
                   "read as 2.0")
    res["stats"] = {**dict(eng.stats), **res["stats"]}
    return res


def replay_payload(cfg, vals):
    return {"kind": "scale", "gene": cfg["gene"], "genome": cfg["genome"], "vals": vals}


def report(res, cfg, mdl, depth, cnv, prow, nv, k, what):
    vals = {"depth": {str(i): float(symx.model_value(mdl, v)) for i, v in depth.items()},
            "cnv": {str(i): float(symx.model_value(mdl, v)) for i, v in cnv.items()},
            "prow": {f"{gi}|{r}": float(symx.model_value(mdl, v))
                     for (gi, r), v in prow.items()},
            "nv": float(symx.model_value(mdl, nv)), "k": float(symx.model_value(mdl, k))}
    rp = replay_payload(cfg, vals)
    okk, msg = replay(rp)
    res["stats"]["replays"] = res["stats"].get("replays", 0) + 1
    if okk:
        res["violations"].append({"what": f"{what}: {msg}", "key": "scale", "replay": rp})
    else:
        res["inconclusive"].append(f"{what}: {msg}")
        ob(res, f"UNREPRODUCED counterexample: {what}", "inconclusive")


def replay_scale(o):
    """Concrete integer depths through a real Coverage object (lists of observations)."""
    gene = gengene.load(o["gene"], o["genome"])
    v = o["vals"]
    if v is None:
        return True, "crash observed"
    nreg = GRange(gene.chr, 10, 13)

    def build(dmul, nmul, data, nvv):
        prof = Profile("p", nreg, data)
        prof.neutral_value = nvv
        cov = {int(i): {"_": [(60, 60)] * int(round(d * dmul))} for i, d in
               v["depth"].items() if int(round(d * dmul)) > 0}
        cnvd = collections.defaultdict(int, {int(i): int(round(d * nmul))
                                             for i, d in v["cnv"].items()})
        return Coverage(gene, prof, None, cov, None, cnvd)

    data = {gene.name: {}}
    for key, val in v["prow"].items():
        gi, r = key.split("|")
        data[gene.name].setdefault(r, [0.0] * len(gene.regions))[int(gi)] = val
    k = max(2, int(round(v["k"])))
    msgs = []
    try:
        c1 = build(1, 1, data, v["nv"])
        c1._normalize_coverage()
        c2 = build(k, k, data, v["nv"])
        c2._normalize_coverage()
        c3 = build(k, 1, data, v["nv"])
        c3._normalize_coverage()
    except AldyException as e:
        nsum = sum(int(round(d)) for d in v["cnv"].values())
        if nsum > 0 and v["nv"] > 0:
            return True, f"rejected although neutral depth is {nsum}: {e}"
        return False, "rejected as specified"
    except Exception as e:  # noqa
        return True, f"crash: {type(e).__name__}: {e}"
    nsum = sum(int(round(d)) for d in v["cnv"].values())
    if nsum == 0 or v["nv"] == 0:
        return True, "normalised with an empty neutral region / zero neutral value"
    for gi, gr in enumerate(gene.regions):
        for r, rng in gr.items():
            a, b, c = (x.region_coverage(gi, r) for x in (c1, c2, c3))
            s = sum(int(round(v["depth"].get(str(i), 0))) for i in range(rng.start, rng.end))
            p = data[gene.name][r][gi]
            want = 0.0 if p == 0 else v["nv"] / nsum * s / (p / 2)
            if abs(a - want) > 1e-6 * max(1, abs(want)):
                msgs.append(f"{r}: value {a}, documented {want}")
            if abs(a - b) > 1e-6 * max(1, abs(a)):
                msgs.append(f"{r}: {a} at depth x1 but {b} at depth x{k}")
            if abs(c - k * a) > 1e-6 * max(1, abs(c)):
                msgs.append(f"{r}: gene-only x{k} gives {c}, expected {k * a}")
    # self profile
    sdata = {gene.name: {}}
    for gi, gr in enumerate(gene.regions):
        for r, rng in gr.items():
            sdata[gene.name].setdefault(r, [0.0] * len(gene.regions))[gi] = float(sum(
                int(round(v["depth"].get(str(i), 0))) for i in range(rng.start, rng.end)))
    cs = build(1, 1, sdata, float(nsum))
    cs._normalize_coverage()
    for gi, gr in enumerate(gene.regions):
        for r in gr:
            if sdata[gene.name][r][gi] != 0 and cs.region_coverage(gi, r) != 2.0:
                msgs.append(f"self-profile region {r} reads {cs.region_coverage(gi, r)}")
    return bool(msgs), "; ".join(msgs[:3])


# ------------------------------------------------------------------ float lemma


class F64:
    """IEEE-754 double proxy (z3 FloatingPoint, RNE)."""

    RM = z3.RNE()

    def __init__(self, t):
        self.t = t

    @staticmethod
    def lift(x):
        if isinstance(x, F64):
            return x.t
        return z3.FPVal(float(x), z3.Float64())

    def __add__(self, o):
        return F64(z3.fpAdd(F64.RM, self.t, F64.lift(o)))

    def __radd__(self, o):
        if isinstance(o, int) and o == 0:
            return self  # sum() starts with int 0: 0 + x is x
        return F64(z3.fpAdd(F64.RM, F64.lift(o), self.t))

    def __mul__(self, o):
        return F64(z3.fpMul(F64.RM, self.t, F64.lift(o)))

    __rmul__ = __mul__

    def __truediv__(self, o):
        return F64(z3.fpDiv(F64.RM, self.t, F64.lift(o)))

    def __rtruediv__(self, o):
        return F64(z3.fpDiv(F64.RM, F64.lift(o), self.t))

    def __eq__(self, o):
        return SB(z3.fpEQ(self.t, F64.lift(o)))

    def __ne__(self, o):
        return SB(z3.Not(z3.fpEQ(self.t, F64.lift(o))))

    def __hash__(self):
        return id(self)

    def __format__(self, spec):
        return "<f64>"


class _Gene1:
    name = "G"

    def __init__(self):
        self.regions = [{"r": GRange("1", 0, 1)}]


def run_float(cfg):
    res = new_result(cfg)
    eng = Engine(name="c07f", timeout_ms=600000)
    n = z3.FP("n", z3.Float64())  # neutral sum of the sample == profile neutral value
    s = z3.FP("s", z3.Float64())  # region sum of the sample == profile row
    lo, hi = z3.FPVal(1.0, z3.Float64()), z3.FPVal(float(2 ** 60), z3.Float64())
    base = [z3.fpGEQ(n, lo), z3.fpLEQ(n, hi), z3.fpGEQ(s, lo), z3.fpLEQ(s, hi)]
    prof = Profile("p", GRange("1", 5, 6), {"G": {"r": [F64(s)]}})
    prof.neutral_value = F64(n)

    class Cov(Coverage):
        def total(self, m):
            return F64(s)

    def run():
        c = Cov(_Gene1(), prof, None, {}, None, {5: F64(n)})
        c._normalize_coverage()
        return c.region_coverage(0, "r")

    for dec, pc, val in eng.explore(run, base):
        goal = z3.fpEQ(val.t, z3.FPVal(2.0, z3.Float64()))
        t0 = time.time()
        if cfg["solver"] == "z3":
            st, mdl = eng.prove([], goal, timeout_ms=900000)
        else:
            st, mdl = prove_cvc5(pc, goal)
        ob(res, f"float/{cfg['solver']}: sample == profile sample => region value is "
                "exactly 2.0 in IEEE double arithmetic (all n, s in [1, 2^60])", st,
           time.time() - t0)
        if st == "sat" and mdl is not None:
            nval = float(symx.model_value(mdl, z3.fpToReal(n)))
            sval = float(symx.model_value(mdl, z3.fpToReal(s)))
            rp = {"kind": "float", "n": nval, "s": sval}
            okk, msg = replay(rp)
            res["stats"]["replays"] = 1
            if okk:
                res["violations"].append({"what": msg, "key": "float", "replay": rp})
            else:
                res["inconclusive"].append(msg)
                ob(res, "UNREPRODUCED counterexample: float", "inconclusive")
    res["stats"] = {**dict(eng.stats), **res["stats"]}
    return res


def prove_cvc5(pc, goal):
    import subprocess
    import tempfile
    import os

    s = z3.Solver()
    for c in pc:
        s.add(c)
    s.add(z3.Not(goal))
    txt = "(set-logic QF_FP)\n" + s.to_smt2().replace("(set-info :status unknown)", "")
    with tempfile.NamedTemporaryFile("w", suffix=".smt2", delete=False) as f:
        f.write(txt)
        path = f.name
    try:
        p = subprocess.run(["cvc5", "--tlimit=600000", path], capture_output=True,
                           text=True, timeout=700)
        out = (p.stdout + p.stderr).strip().splitlines()
    except Exception as e:  # noqa
        out = [f"error {e}"]
    finally:
        os.unlink(path)
    if any("(error" in l or l.startswith("error") for l in out):
        return "unknown", None
    if out and out[0] == "unsat":
        return "unsat", None
    if out and out[0] == "sat":
        return "sat", None
    return "unknown", None


def replay_float(o):
    prof = Profile("p", GRange("1", 5, 6), {"G": {"r": [o["s"]]}})
    prof.neutral_value = o["n"]

    class Cov(Coverage):
        def total(self, m):
            return o["s"]

    c = Cov(_Gene1(), prof, None, {}, None, {5: o["n"]})
    c._normalize_coverage()
    v = c.region_coverage(0, "r")
    return v != 2.0, f"self-profile with neutral sum {o['n']!r}, region sum {o['s']!r} reads {v!r}"


# ------------------------------------------------------------------ depth accessors


def run_depth(cfg):
    import aldy.coverage as cov_mod

    res = new_result(cfg)
    eng = Engine(name="c07d")
    gene = gengene.load("toy", "hg19")
    # (a) total() excludes insertions: observation lists of symbolic length are not
    # expressible; the accessor is run on every split of 4 observations over
    # {ref, snp, ins} (the split is chosen by the solver: 3 symbolic counts, sum 4)
    a, b, c = z3.Int("a"), z3.Int("b"), z3.Int("c")
    base = [a >= 0, b >= 0, c >= 0, a + b + c == 4]
    pos = 100000104

    def run():
        na = eng.choose(a, range(5))
        nb = eng.choose(b, range(5))
        nc = eng.choose(c, range(5))
        cov = Coverage(gene, Profile("d"), None,
                       {pos: {"_": [(60, 60)] * na, "T>A": [(60, 60)] * nb,
                              "insTT": [(60, 60)] * nc}}, None, {})
        return cov.total(pos), cov.total(Mutation(pos, "insTT")), cov.coverage(
            Mutation(pos, "insTT")), cov

    for dec, pc, (t, t2, ci, cov) in eng.explore(run, base):
        s_, _ = eng.prove([], z3.And(a + b == int(t), a + b == int(t2), c == int(ci)))
        ob(res, "depth: total() counts reference and substitution observations, not "
                "insertions", s_)
        if s_ == "sat":
            res["violations"].append({"what": "Coverage.total counts insertions into depth",
                                      "key": "total", "replay": {"kind": "none"}})
    # (b) averages on symbolic depths
    d = {100000100 + i: z3.Real(f"d{i}") for i in range(4)}
    cnv = {10 + i: z3.Real(f"n{i}") for i in range(3)}
    base = [v >= 0 for v in list(d.values()) + list(cnv.values())]
    cov_mod.float = symx.sfloat
    try:
        def run2():
            prof = Profile("p", GRange("20", 10, 13), {})
            c_ = DepthCov(gene, prof, {i: S(v) for i, v in d.items()},
                          {i: S(v) for i, v in cnv.items()})
            c_._coverage = {i: {"_": None} for i in d}
            return c_.average_coverage(), c_.diploid_avg_coverage()

        for dec, pc, (avg, dip) in eng.explore(run2, base):
            s_, _ = eng.prove([], z3.And(
                symx.tz(avg) * symx.q(len(d) + 0.1) == z3.Sum(list(d.values())),
                symx.tz(dip) * 3 == z3.Sum(list(cnv.values()))))
            ob(res, "depth: average_coverage = total depth / (#positions + 0.1); "
                    "diploid average = neutral depth / region length", s_)
            if s_ == "sat":
                res["violations"].append({"what": "average depth accessors differ from "
                                          "their documentation", "key": "avg",
                                          "replay": {"kind": "none"}})
    finally:
        cov_mod.__dict__.pop("float", None)
    res["stats"] = {**dict(eng.stats), **res["stats"]}
    return res


def replay_none(o):
    return True, "observed directly"


def replay(o):
    if o["kind"] in ("region", "none") and "replay_" + o["kind"] not in globals():
        import c06
        return c06.replay(o)
    return globals()["replay_" + o["kind"]](o)
