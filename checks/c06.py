"""
C06 -- alignment evidence is a faithful pileup of the eligible reads.

  shapes    the real Sample._parse_read runs on reads whose start, CIGAR (<= 3 operations
            over {M,=,X,I,D,S}, sizes 1-3) and per-base content (reference base / the
            catalogued multi-nucleotide alternative / another base) are z3 variables,
            concretised path by path by the engine (solver-driven exhaustive exploration of
            a discrete space -- every path ends concrete, claimed as exploration); on each
            path the result is compared with an independent CIGAR interpreter: one
            non-insertion observation per spanned position, substitution / reference
            counts, complete multi-nucleotide substitution counted once at its first
            position, clips and insertions consume no reference, phase record, invariance
            under splitting / relabelling match runs, and two reads in either order
  quality   bin_quality and the (mapq, baseq) stored per observation with *symbolic*
            qualities (z3 integers 0..93): the documented Illumina binning
  region    the real _in_region on symbolic interval endpoints: true iff the closed
            intervals intersect (and the chromosome matches)
  eligible  the real _load_sam loop on in-memory reads with symbolic flags: unaligned,
            supplementary, hard-clipped, empty-sequence and off-locus reads contribute
            nothing; everything else is parsed
  walkers   the three depth walkers (profile.get_sam_profile_data, Sample._load_cn_region,
            _parse_read + Coverage.total) give the same per-position depth for the same
            reads (symbolic CIGAR shapes as above)
  folding   _make_coverage folds substitutions outside the RefSeq-mapped part into the
            reference count
"""
import itertools
import collections
import os
import tempfile
import yaml
import z3

import symx
import gengene
from symx import S, SB, Engine
from vcommon import new_result, ob
from aldy.gene import Mutation
from aldy.profile import Profile
from aldy.common import GRange

PROPERTY = "C06"
LEVEL = "exploration"
FUNCTIONS = ["aldy.sam.Sample._parse_read", "aldy.sam.Sample._make_coverage",
             "aldy.sam.Sample._load_sam (eligibility loop)", "aldy.sam._in_region",
             "aldy.sam.Sample._load_cn_region", "aldy.profile.Profile.get_sam_profile_data",
             "aldy.coverage.Coverage.{total,coverage}"]
STUBS = ["pysam.AlignmentFile -> in-memory file yielding duck-typed reads; "
         "Sample._realign_indels -> no-op; aldy.sam.int -> symbolic int (quality part)"]
OUTSIDE = ["htslib's own pileup and the shipped BAMs (no symbolic input exists)",
           "long-read splitting (mappy), indel realignment (indelpost)",
           "CIGAR operations N, P, H inside _parse_read; reads longer than 9 bases"]
ASSUMPTIONS = ["every path ends concrete: exhaustive within the bounds, not beyond"]
RULE = ("cases = (start x CIGAR shape x base pattern) enumerated by the solver; non-trivial "
        "= at least one reference-consuming operation; distinct = distinct case")
OPS = [0, 7, 8, 1, 2, 4]  # M = X I D S
NAMES = {0: "M", 7: "=", 8: "X", 1: "I", 2: "D", 4: "S"}


def BOUNDS(tier):
    return ["gene GA hg19 (+) and hg38 (-), reads starting in a 6 bp window before the "
            "catalogued multi-nucleotide substitution; CIGAR of 1-" +
            ("3" if tier == "thorough" else "2") + " operations over {M,=,X,I,D,S}, sizes "
            "1-" + ("3" if tier == "thorough" else "2") + "; bases per aligned position in "
            "{reference, other} and {reference, MNP alternative, other} at the MNP's sites",
            "quality: mapq and base qualities symbolic integers 0..93",
            "eligible: 1 read, flags {unmapped, supplementary, hard clip, empty sequence, "
            "other chromosome, off locus} symbolic"]


def configs(tier):
    c = []
    nops = (1, 2, 3) if tier == "thorough" else (1, 2)
    extra = {"maxsz": 3, "starts": 5} if tier == "thorough" else {"maxsz": 2, "starts": 4}
    for b in ("hg19", "hg38"):
        for n in nops:
            for first in range(len(OPS)):
                c.append({"kind": "shapes", "genome": b, "nops": n, "first": first,
                          **({"maxsz": 2, "starts": 4} if n == 3 else extra)})
        # reads with no-call bases
        for first in (0, 1, 2):
            c.append({"kind": "shapes", "genome": b, "nops": 2, "first": first, "maxsz": 2,
                      "starts": 4, "nbase": True})
        for anchor in ("lo", "hi"):
            for first in range(len(OPS)):
                c.append({"kind": "shapes", "genome": b, "nops": 2, "first": first,
                          "maxsz": 3, "starts": 4, "anchor": anchor})
        c.append({"kind": "walkers", "genome": b, "nops": 2, **extra})
    c.append({"kind": "quality"})
    c.append({"kind": "region"})
    c.append({"kind": "eligible"})
    c.append({"kind": "folding"})
    return c


def run_config(cfg):
    return globals()["run_" + cfg["kind"]](cfg)


# ------------------------------------------------------------------ helpers


def bin_spec(q):
    if q < 2:
        return int(q)
    if q < 10:
        return 6
    if q < 20:
        return 15
    if q < 29:
        return 25
    if q < 39:
        return 35
    return 40


def new_sample(gene):
    import aldy.sam as sam_mod

    s = sam_mod.Sample.__new__(sam_mod.Sample)
    s.gene = gene
    s.profile = Profile("p")
    s.phases = {}
    s._indel_sites = {(p, o): [0, 0] for p, o in gene.mutations if o[:3] in ("ins", "del")}
    s._indel_sites_eqs = {}
    s._multi_sites = {m.pos: m.op for _, a in gene.alleles.items() for m in a.func_muts
                      if ">" in m.op and len(m.op) > 3}
    s.phaseable = {pos: i for i, pos in enumerate(sorted({pos for pos, _ in gene.mutations}))}
    s._fusion_counter = {}
    s._dump_cn = collections.defaultdict(int)
    s.reads = None
    s._dump_reads = []
    s.name = "s"
    return s


def interpret(gene, sample, ref_start, cigar, seq, mq, quals):
    """independent CIGAR interpreter -> (obs: Counter[(pos, op)] of non-insertion
    observations incl. deleted bases, ins: Counter, shown: {pos: set(alleles)}, end)"""
    obs = collections.Counter()
    ins = collections.Counter()
    shown = collections.defaultdict(set)
    qual = {}
    pos, qi = ref_start, 0
    subs = {}
    for op, size in cigar:
        if op in (0, 7, 8):
            for i in range(size):
                b = seq[qi + i]
                p = pos + i
                if p in gene.chr_to_ref and gene[p] != b:
                    subs[p] = f"{gene[p]}>{b}"
                    obs[p, subs[p]] += 1
                    shown[p].add(subs[p])
                else:
                    obs[p, "_"] += 1
                    shown[p].add("_")
                qual[p] = (bin_spec(mq), bin_spec(quals[qi + i]))
            pos += size
            qi += size
        elif op == 2:
            for i in range(size):
                obs[pos + i, "-"] += 1
            shown[pos].add("del" + gene[pos:pos + size])
            pos += size
        elif op == 1:
            ins[pos, "ins" + seq[qi:qi + size]] += 1
            shown[pos].add("ins" + seq[qi:qi + size])
            qi += size
        elif op == 4:
            qi += size
    # complete catalogued multi-nucleotide substitutions: once, at the first position
    for mp, mop in sample._multi_sites.items():
        l, r = mop.split(">")
        comps = [(mp + i, f"{l[i]}>{r[i]}") for i in range(len(l)) if l[i] != "."]
        if all(subs.get(p) == o for p, o in comps):
            for p, o in comps:
                obs[p, o] -= 1
                if p != mp:
                    obs[p, "_"] += 1
            obs[mp, mop] += 1
    obs = +obs
    return obs, ins, shown, pos, qual


def observed(norm, muts):
    obs = collections.Counter()
    ins = collections.Counter()
    for p, l in norm.items():
        if l:
            obs[p, "_"] += len(l)
    for (p, o), l in muts.items():
        if not l:
            continue
        if o.startswith("ins"):
            ins[p, o] += len(l)
        else:
            obs[p, o] += len(l)
    return obs, ins


def choose_read(eng, gene, sample, cfg, V, prefix=""):
    """concretise (start, cigar, seq) from the z3 variables V."""
    mnp = next(iter(sample._multi_sites.items()))
    lo = mnp[0] - 4
    # reads that cross the first / last genome position RefSeq maps to
    if cfg.get("anchor") == "lo":
        lo = min(gene.chr_to_ref) - 3
    elif cfg.get("anchor") == "hi":
        lo = max(gene.chr_to_ref) - 2
    start = eng.choose(V["start"], range(lo + 1, lo + 1 + cfg.get("starts", 4)))
    n = cfg["nops"]
    cigar = []
    for j in range(n):
        op = OPS[eng.choose(V["op"][j], range(len(OPS)))]
        sz = eng.choose(V["sz"][j], range(1, cfg.get("maxsz", 2) + 1))
        cigar.append((op, sz))
    # per query base: what it shows
    seq = []
    pos = start
    qi = 0
    l, r = mnp[1].split(">")
    alt_at = {mnp[0] + i: r[i] for i in range(len(l)) if l[i] != "."}
    other = {"A": "C", "C": "G", "G": "T", "T": "A", "N": "A"}
    for op, sz in cigar:
        if op in (0, 7, 8):
            for i in range(sz):
                p = pos + i
                ref = gene[p]
                # three choices at the positions of the catalogued MNP, two elsewhere
                dom = list(range(3 if p in alt_at else (1 if cfg.get("refonly") else 2)))
                if cfg.get("nbase"):
                    dom.append(3)  # the read shows a no-call 'N' there
                k = eng.choose(V["b"][qi], dom)
                if p not in alt_at and k == 1:
                    k = 2
                if k == 3:
                    seq.append("N")
                elif k == 0:
                    seq.append(ref if ref != "N" else "A")
                elif k == 1:
                    seq.append(alt_at.get(p, other[ref]))
                else:
                    o = other[ref]
                    if o == alt_at.get(p):
                        o = other[o]
                    seq.append(o if o != ref else other[o])
                qi += 1
            pos += sz
        elif op == 2:
            pos += sz
        elif op in (1, 4):
            for i in range(sz):
                seq.append("ACGT"[(qi + i) % 4])
                qi += 1
    return start, cigar, "".join(seq)


def read_vars(n, tag=""):
    return {"start": z3.Int(f"{tag}start"),
            "op": [z3.Int(f"{tag}op{j}") for j in range(n)],
            "sz": [z3.Int(f"{tag}sz{j}") for j in range(n)],
            "b": [z3.Int(f"{tag}b{j}") for j in range(3 * n)]}


def read_base(V, n):
    base = []
    for j in range(n):
        base += [V["op"][j] >= 0, V["op"][j] < len(OPS), V["sz"][j] >= 1, V["sz"][j] <= 3]
    base += [z3.And(b >= 0, b < 4) for b in V["b"]]
    return base


def split_variants(cigar):
    """equivalent CIGARs: split the first match run of size >= 2; relabel M/=/X."""
    out = []
    for j, (op, sz) in enumerate(cigar):
        if op in (0, 7, 8):
            if sz >= 2:
                out.append(cigar[:j] + [(op, 1), (op, sz - 1)] + cigar[j + 1:])
            out.append(cigar[:j] + [({0: 7, 7: 8, 8: 0}[op], sz)] + cigar[j + 1:])
            break
    return out


def run_shapes(cfg):
    res = new_result(cfg)
    gene = gengene.load("GA", cfg["genome"])
    eng = Engine(name="c06")
    n = cfg["nops"]
    V = read_vars(n)
    base = read_base(V, n) + [V["op"][0] == cfg["first"]]
    tag = f"shapes/GA/{cfg['genome']}/{n}ops/first={NAMES[OPS[cfg['first']]]}" + (
        f"/edge-{cfg['anchor']}" if cfg.get("anchor") else "")
    quals_of = lambda s: [30] * len(s)  # noqa

    def run():
        sample = new_sample(gene)
        start, cigar, seq = choose_read(eng, gene, sample, cfg, V)
        probs = check_read(gene, start, cigar, seq)
        return (start, cigar, seq), probs

    ncase = 0
    for dec, pc, (case, probs) in eng.explore(run, base, max_paths=400000):
        ncase += 1
        ob(res, f"{tag}: pileup = independent CIGAR interpretation (depth, substitutions, "
                "MNP, clips/insertions, phase, split/relabel invariance, read order)",
           "holds" if not probs else "sat")
        for key, msg in probs[:3]:
            res["violations"].append({
                "what": f"GA/{cfg['genome']} read start={case[0]} cigar="
                        f"{''.join(str(s) + NAMES[o] for o, s in case[1])} seq={case[2]}: {msg}",
                "key": key, "replay": {"kind": "shapes", "genome": cfg["genome"],
                                       "start": case[0], "cigar": case[1], "seq": case[2]}})
        if len(res["samples"]) < 2:
            res["samples"].append({"start": case[0], "cigar": case[1], "seq": case[2]})
    seen = {}
    for v in res["violations"]:
        seen.setdefault(v["key"], v)
    res["violations"] = list(seen.values())
    res["stats"] = dict(eng.stats)
    res["stats"]["distinct_cases"] = ncase
    res["obligations"] = [{"label": o["label"], "status": o["status"], "secs": 0}
                          for o in res["obligations"]]
    return res


def parse(gene, reads):
    """real _parse_read on a fresh sample for a list of (name, start, cigar, seq)."""
    sample = new_sample(gene)
    norm, muts = collections.defaultdict(list), collections.defaultdict(list)
    rets = []
    for name, start, cigar, seq in reads:
        rets.append(sample._parse_read(name, start, [tuple(c) for c in cigar], seq, norm,
                                       muts, 50, [30] * len(seq)))
    return sample, norm, muts, rets


def check_read(gene, start, cigar, seq):
    probs = []
    try:
        sample, norm, muts, rets = parse(gene, [("r1", start, cigar, seq)])
    except Exception as e:  # noqa
        return [("parse-exception", f"_parse_read raised {type(e).__name__}: {e}")]
    wobs, wins, shown, end, wq = interpret(gene, sample, start, cigar, seq, 50,
                                           [30] * len(seq))
    obs, ins = observed(norm, muts)
    if obs != wobs:
        d = sorted((set(obs.items()) ^ set(wobs.items())))[:4]
        probs.append(("pileup-obs", f"observations differ from the interpreter: {d}"))
    if ins != wins:
        probs.append(("pileup-ins", f"insertions {dict(ins)} expected {dict(wins)}"))
    depth = collections.Counter()
    for (p, o), c in obs.items():
        depth[p] += c
    span = collections.Counter()
    p = start
    for op, sz in cigar:
        if op in (0, 7, 8, 2):
            for i in range(sz):
                span[p + i] += 1
            p += sz
    if depth != span:
        probs.append(("pileup-depth", f"depth {dict(depth)} but the read spans {dict(span)}"))
    if rets[0][0][:2] != (start, end):
        probs.append(("pileup-span", f"reported span {rets[0][0]} expected {(start, end)}"))
    # qualities
    for pp, lst in list(norm.items()) + [(k[0], v) for k, v in muts.items()
                                         if not k[1].startswith("ins") and k[1] != "-"]:
        for (m_, q_) in lst:
            if (m_, q_) != (bin_spec(50), bin_spec(30)) and len(str(k_op(muts, pp))) < 99:
                if not (isinstance(m_, float) or isinstance(q_, float)):
                    probs.append(("pileup-qual", f"observation at {pp} has qualities "
                                                 f"{(m_, q_)}"))
    # phase record
    ph = sample.phases.get("r1", {})
    for pp, allele in ph.items():
        if allele not in shown.get(pp, set()) and not _mnp_part(sample, pp):
            probs.append(("pileup-phase", f"phase record says {allele} at {pp}, the read "
                                          f"shows {sorted(shown.get(pp, []))}"))
    for pp in sample.phaseable:
        if pp in span and pp not in ph and span[pp] and any(
                o != "-" for (q, o) in obs if q == pp):
            probs.append(("pileup-phase-missing", f"covered catalogued site {pp} has no "
                                                  "phase record"))
    # split / relabel invariance
    for alt in split_variants(cigar):
        try:
            s2, n2, m2, _ = parse(gene, [("r1", start, alt, seq)])
        except Exception as e:  # noqa
            probs.append(("parse-exception", f"_parse_read raised {type(e).__name__} on "
                                             f"{alt}"))
            continue
        if observed(n2, m2) != (obs, ins):
            probs.append(("pileup-split", f"CIGAR {alt} gives a different pileup than "
                                          f"{cigar}"))
    # two reads in either order
    other = ("r2", start + 1, [(0, 2)], gene[start + 1] + "A")
    a = parse(gene, [("r1", start, cigar, seq), other])
    b = parse(gene, [other, ("r1", start, cigar, seq)])
    if observed(a[1], a[2]) != observed(b[1], b[2]):
        probs.append(("pileup-order", "two reads in either order give different pileups"))
    return probs


def k_op(muts, pp):
    return ""


def _mnp_part(sample, pp):
    for mp, mop in sample._multi_sites.items():
        if mp <= pp < mp + len(mop.split(">")[0]):
            return True
    return False


# ------------------------------------------------------------------ quality


def run_quality(cfg):
    import aldy.sam as sam_mod

    res = new_result(cfg)
    eng = Engine(name="c06q")
    gene = gengene.load("GA", "hg19")
    mq, q0, q1 = z3.Int("mq"), z3.Int("q0"), z3.Int("q1")
    base = [z3.And(x >= 0, x <= 93) for x in (mq, q0, q1)]
    start = min(gene.chr_to_ref) + 30
    seq = gene[start] + ("A" if gene[start + 1] != "A" else "C")
    saved = sam_mod.__dict__.get("int")
    sam_mod.int = symx.sint

    def zbin(x):
        return z3.If(x < 2, x, z3.If(x < 10, 6, z3.If(x < 20, 15, z3.If(x < 29, 25,
                     z3.If(x < 39, 35, 40)))))

    try:
        def run():
            sample = new_sample(gene)
            norm, muts = collections.defaultdict(list), collections.defaultdict(list)
            sample._parse_read("r", start, [(0, 2)], seq, norm, muts, S(mq), [S(q0), S(q1)])
            return norm, muts

        for dec, pc, (norm, muts) in eng.explore(run, base, max_paths=5000):
            o0 = norm[start][0]
            o1 = muts[start + 1, f"{gene[start + 1]}>{seq[1]}"][0]
            g = z3.And(symx.tz(o0[0]) == zbin(mq), symx.tz(o0[1]) == zbin(q0),
                       symx.tz(o1[0]) == zbin(mq), symx.tz(o1[1]) == zbin(q1))
            st, mdl = eng.prove([], g)
            ob(res, "quality: each observation keeps bin(mapq) and bin(base quality) "
                    "(documented Illumina binning), all qualities 0..93", st)
            if st == "sat":
                vals = [int(str(mdl.eval(x, model_completion=True))) for x in (mq, q0, q1)]
                rp = {"kind": "quality", "vals": vals}
                okk, msg = replay(rp)
                res["stats"]["replays"] = res["stats"].get("replays", 0) + 1
                if okk:
                    res["violations"].append({"what": msg, "key": "quality", "replay": rp})
                else:
                    res["inconclusive"].append(msg)
                    ob(res, "UNREPRODUCED counterexample: quality", "inconclusive")
    finally:
        if saved is None:
            sam_mod.__dict__.pop("int", None)
        else:
            sam_mod.int = saved
    res["stats"] = {**dict(eng.stats), **res["stats"]}
    res["obligations"] = [{"label": o["label"], "status": o["status"], "secs": 0}
                          for o in res["obligations"]]
    return res


def replay_quality(o):
    gene = gengene.load("GA", "hg19")
    mq, q0, q1 = o["vals"]
    start = min(gene.chr_to_ref) + 30
    seq = gene[start] + ("A" if gene[start + 1] != "A" else "C")
    sample = new_sample(gene)
    norm, muts = collections.defaultdict(list), collections.defaultdict(list)
    sample._parse_read("r", start, [(0, 2)], seq, norm, muts, mq, [q0, q1])
    got = [norm[start][0], muts[start + 1, f"{gene[start + 1]}>{seq[1]}"][0]]
    want = [(bin_spec(mq), bin_spec(q0)), (bin_spec(mq), bin_spec(q1))]
    return got != want, f"qualities mapq={mq} base={q0},{q1}: stored {got}, expected {want}"


# ------------------------------------------------------------------ region / eligibility


class FakeRead:
    def __init__(self, **kw):
        self.__dict__.update(kw)

    def has_tag(self, t):
        return False


def run_region(cfg):
    import aldy.sam as sam_mod

    res = new_result(cfg)
    eng = Engine(name="c06r")
    a, b, c, d = (z3.Int(x) for x in "abcd")
    base = [a >= 0, b >= a, c >= 0, d >= c, b <= 1000, d <= 1000]
    same = z3.Bool("same_chr")
    mapped = z3.Bool("mapped")

    def run():
        chr_same = eng.branch(same)
        is_mapped = eng.branch(mapped)
        r = FakeRead(reference_id=0 if is_mapped else -1,
                     reference_name="chr9" if chr_same else "chr1",
                     reference_start=S(a), reference_end=S(b))
        return bool(sam_mod._in_region(GRange("9", S(c), S(d)), r, "chr"))

    for dec, pc, val in eng.explore(run, base):
        inter = z3.And(a <= d, c <= b)
        st, mdl = eng.prove([], z3.BoolVal(val) == z3.And(same, mapped, inter))
        ob(res, "region: a read is in the region iff it is mapped to the chromosome and "
                "the closed intervals intersect", st)
        if st == "sat":
            vals = [int(str(mdl.eval(x, model_completion=True))) for x in (a, b, c, d)]
            res["violations"].append({
                "what": f"_in_region wrong for read [{vals[0]},{vals[1]}] region "
                        f"[{vals[2]},{vals[3]}]", "key": "region",
                "replay": {"kind": "region", "vals": vals}})
    res["stats"] = dict(eng.stats)
    return res


def replay_region(o):
    import aldy.sam as sam_mod

    a, b, c, d = o["vals"]
    r = FakeRead(reference_id=0, reference_name="chr9", reference_start=a, reference_end=b)
    got = sam_mod._in_region(GRange("9", c, d), r, "chr")
    return got != (a <= d and c <= b), f"read [{a},{b}] region [{c},{d}] -> {got}"


class FakeSam:
    def __init__(self, reads, names=("9", "1")):
        self.header = {"SQ": [{"SN": n, "LN": 10 ** 8} for n in names]}
        self.reads = reads

    def __enter__(self):
        return self

    def __exit__(self, *a):
        return False

    def check_index(self):
        return True

    def fetch(self, region=None):
        if region is None:
            return iter(self.reads)
        # an indexed file returns the reads of the requested contig only
        chrom = str(region).split(":")[0]
        chrom = chrom[3:] if chrom.startswith("chr") else chrom
        return iter([r for r in self.reads if str(r.reference_name) == chrom])


def run_eligible(cfg):
    import aldy.sam as sam_mod

    res = new_result(cfg)
    eng = Engine(name="c06e")
    gene = gengene.load("GA", "hg19")
    flags = {k: z3.Bool(k) for k in ("unmapped", "supp", "hard", "empty", "otherchr",
                                     "offlocus", "secondary", "duplicate")}
    hard_at = z3.Int("hard_clip_position")  # 0 leading, 1 trailing, 2 both ends
    start = min(gene.chr_to_ref) + 20

    def run():
        f = {k: eng.branch(v) for k, v in flags.items()}
        st_ = 10 ** 6 if f["offlocus"] else start
        seq = gene[start:start + 4]
        where = eng.choose(hard_at, range(3)) if f["hard"] else None
        cig = {None: [(0, 4)], 0: [(5, 2), (0, 4)], 1: [(0, 4), (5, 2)],
               2: [(5, 2), (0, 4), (5, 1)]}[where]
        f = dict(f, hard_where={None: "", 0: "leading", 1: "trailing", 2: "both"}[where])
        r = FakeRead(cigartuples=None if f["unmapped"] else cig,
                     cigarstring={None: "4M", 0: "2H4M", 1: "4M2H", 2: "2H4M1H"}[where],
                     is_supplementary=f["supp"], is_secondary=f["secondary"],
                     is_duplicate=f["duplicate"],
                     query_sequence="" if f["empty"] else seq, query_name="r",
                     reference_id=-1 if f["unmapped"] else 0,
                     reference_name="1" if f["otherchr"] else "9",
                     reference_start=st_, reference_end=st_ + 4, mapping_quality=50,
                     query_qualities=[30] * 4)
        sample = new_sample(gene)
        saved = (sam_mod.pysam.AlignmentFile, sam_mod.Sample._realign_indels)
        sam_mod.pysam.AlignmentFile = lambda *a, **k: FakeSam([r])
        sam_mod.Sample._realign_indels = lambda self, *a, **k: None
        try:
            norm, muts = sample._load_sam("x.bam")
        finally:
            sam_mod.pysam.AlignmentFile, sam_mod.Sample._realign_indels = saved
        n = sum(len(v) for v in norm.values()) + sum(len(v) for v in muts.values())
        return f, n

    for dec, pc, (f, n) in eng.explore(run, []):
        excluded = f["unmapped"] or f["supp"] or f["hard"] or f["empty"] or f["otherchr"] \
            or f["offlocus"]
        good = (n == 0) if excluded else (n == 4)
        ob(res, "eligible: unaligned / supplementary / hard-clipped / empty / off-locus "
                "reads contribute nothing, all others are piled up", "holds" if good
           else "sat")
        if not good:
            res["violations"].append({
                "what": f"read with flags {[k if v is True else v for k, v in f.items() if v]} contributes {n} "
                        "observations", "key": "eligible:" + ",".join(
                            k for k, v in f.items() if v is True),
                "replay": {"kind": "none"}})
    res["stats"] = dict(eng.stats)
    res["obligations"] = [{"label": o["label"], "status": o["status"], "secs": 0}
                          for o in res["obligations"]]
    return res


# ------------------------------------------------------------------ walkers / folding


def run_walkers(cfg):
    import aldy.sam as sam_mod
    import aldy.profile as prof_mod

    res = new_result(cfg)
    gene = gengene.load("GA", cfg["genome"])
    eng = Engine(name="c06w")
    n = cfg["nops"]
    V = read_vars(n)
    base = read_base(V, n)

    in_pseudo = z3.Bool("pseudogene")
    shift = gene.regions[1]["e1"].start - gene.regions[0]["e1"].start \
        if len(gene.regions) > 1 else 0

    def mk(name, start, cigar, seq):
        end = start + sum(s for o, s in cigar if o in (0, 7, 8, 2))
        return FakeRead(cigartuples=[tuple(c) for c in cigar], cigarstring="x",
                        is_supplementary=False, query_sequence=seq, query_name=name,
                        reference_id=0, reference_name=gene.chr, reference_start=start,
                        reference_end=end, mapping_quality=50,
                        query_qualities=[30] * len(seq))

    def run():
        sample = new_sample(gene)
        start, cigar, seq = choose_read(eng, gene, sample, cfg, V)
        # the same read placed over the pseudogene copy (outside the RefSeq-mapped part)
        if shift and eng.branch(in_pseudo):
            start += shift
        end = start + sum(s for o, s in cigar if o in (0, 7, 8, 2))
        # a second, plain read over the same window: depths must add up
        w0 = start - 1
        plain = "".join(b if b != "N" else "A" for b in gene[w0:w0 + 8])
        reads = [mk("r", start, cigar, seq), mk("p", w0, [(0, 8)], plain)]
        end = max(end, w0 + 8)
        norm, muts = collections.defaultdict(list), collections.defaultdict(list)
        for rd in reads:
            sample._parse_read(rd.query_name, rd.reference_start, rd.cigartuples,
                               rd.query_sequence, norm, muts, 50,
                               [30] * len(rd.query_sequence))
        sample._make_coverage(norm, muts)
        d1 = {p: sample.coverage.total(p) for p in range(w0 - 1, end + 2)}
        region = GRange(gene.chr, w0 - 2, end + 3)
        saved = (sam_mod.pysam.AlignmentFile, prof_mod.pysam.AlignmentFile)
        sam_mod.pysam.AlignmentFile = lambda *a, **k: FakeSam(reads, (gene.chr,))
        prof_mod.pysam.AlignmentFile = lambda *a, **k: FakeSam(reads, (gene.chr,))
        try:
            s2 = new_sample(gene)
            s2.path = "x"
            cnv = s2._load_cn_region("x.bam", None, region)
            d2 = {p: cnv.get(p, 0) for p in d1}
            regs = {("G", f"p{p}", 0): GRange(gene.chr, p, p + 1) for p in d1}
            data = prof_mod.Profile.get_sam_profile_data("x.bam", regions=regs,
                                                         cn_region=region, genome="hg19")
            d3 = {p: data["G"][f"p{p}"][0] for p in d1}
            # the profile-file route: what `aldy profile -n <region>` writes for this gene,
            # loaded back -- the neutral value must be the depth summed over the very
            # region the loaded profile then measures the sample's neutral depth in
            gregs = {(gene.name, r, gi): rng for gi, gr in enumerate(gene.regions)
                     for r, rng in gr.items()}
            pdata = prof_mod.Profile.get_sam_profile_data(
                "x.bam", regions=gregs, cn_region=region, genome=gene.genome)
            # a neutral region on another contig with the same coordinates: none of these
            # reads lies there
            other = "1" if gene.chr != "1" else "2"
            odata = prof_mod.Profile.get_sam_profile_data(
                "x.bam", regions=gregs, cn_region=GRange(other, region.start, region.end),
                genome=gene.genome)
            other_ok = (float(odata["neutral"]["value"]) == 0.0 and all(
                odata[gene.name][r] == pdata[gene.name][r] for r in pdata[gene.name]))
            with tempfile.NamedTemporaryFile("w", suffix=".yml", delete=False) as f:
                yaml.safe_dump(pdata, f)
            try:
                lp = prof_mod.Profile.load(gene, f.name)
            finally:
                os.unlink(f.name)
            route = (other_ok and tuple(lp.cn_region) == tuple(region)
                     and float(lp.neutral_value) == float(sum(cnv.values()))
                     and all(float(lp.data[gene.name][r][gi]) == float(sum(
                         d1.get(p, 0) for p in range(rng.start, rng.end) if p in d1))
                         for (g_, r, gi), rng in gregs.items()
                         if w0 - 1 <= rng.start and rng.end <= end + 2))
        finally:
            sam_mod.pysam.AlignmentFile, prof_mod.pysam.AlignmentFile = saved
        return (start, cigar, seq), d1, d2, d3, (route, tuple(lp.cn_region), tuple(region))

    for dec, pc, (case, d1, d2, d3, route) in eng.explore(run, base, max_paths=200000):
        ob(res, f"walkers/GA/{cfg['genome']}: a profile written for a custom neutral region "
                "and loaded back measures the neutral depth in that region, with that "
                "region's depth as neutral value", "holds" if route[0] else "sat")
        if not route[0]:
            res["violations"].append({
                "what": f"profile-file route: written for neutral region {route[2]}, loaded "
                        f"profile uses {route[1]} (or its neutral value / region rows are "
                        "not the depth sums)", "key": "profile-route",
                "replay": {"kind": "none"}})
        good = {k: float(v) for k, v in d1.items()} == {k: float(v) for k, v in d2.items()} \
            == {k: float(v) for k, v in d3.items()}
        ob(res, f"walkers/GA/{cfg['genome']}: pileup depth = neutral-region walker = "
                "profile walker, position by position", "holds" if good else "sat")
        if not good:
            res["violations"].append({
                "what": f"depth walkers disagree on cigar "
                        f"{''.join(str(s) + NAMES[o] for o, s in case[1])}: pileup {d1}, "
                        f"neutral {d2}, profile {d3}", "key": "walkers",
                "replay": {"kind": "none"}})
    seen = {}
    for v in res["violations"]:
        seen.setdefault(v["key"], v)
    res["violations"] = list(seen.values())
    res["stats"] = dict(eng.stats)
    res["obligations"] = [{"label": o["label"], "status": o["status"], "secs": 0}
                          for o in res["obligations"]]
    return res


def run_folding(cfg):
    res = new_result(cfg)
    eng = Engine(name="c06f")
    for b in ("hg19", "hg38"):
        gene = gengene.load("GC", b)
        lo, hi = min(gene.chr_to_ref), max(gene.chr_to_ref)
        off = z3.Int("off")

        def run():
            o = eng.choose(off, range(-3, 4))
            side = eng.branch(z3.Bool("right"))
            p = (hi + o) if side else (lo + o)
            s = new_sample(gene)
            norm = {p: [(40, 40)] * 2}
            muts = {(p, "A>C"): [(40, 40)] * 3, (p, "insTT"): [(40, 40)]}
            s._make_coverage(norm, muts)
            return p, s.coverage

        for dec, pc, (p, cov) in eng.explore(run, [off >= -3, off <= 3]):
            inside = lo <= p <= hi
            want_ref = 2 if inside else 5
            good = (cov.coverage(Mutation(p, "_")) == want_ref and cov.total(p) == 5
                    and (cov.coverage(Mutation(p, "A>C")) == (3 if inside else 0)))
            ob(res, f"folding/GC/{b}: substitutions outside the RefSeq-mapped part count "
                    "as reference, depth unchanged", "holds" if good else "sat")
            if not good:
                res["violations"].append({
                    "what": f"_make_coverage at {p} (mapped {lo}-{hi}): ref "
                            f"{cov.coverage(Mutation(p, '_'))}, depth {cov.total(p)}",
                    "key": "folding", "replay": {"kind": "none"}})
    res["stats"] = dict(eng.stats)
    return res


def replay_shapes(o):
    gene = gengene.load("GA", o["genome"])
    probs = check_read(gene, o["start"], [tuple(c) for c in o["cigar"]], o["seq"])
    return bool(probs), "; ".join(p[1] for p in probs[:3])


def replay_none(o):
    return True, "observed directly"


def replay(o):
    return globals()["replay_" + o["kind"]](o)
