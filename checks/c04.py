"""
C04 -- minor-allele refinement preserves the major call and is optimal.

The real estimate_minor -> solve_minor_model run on symbolic read counts (SymCoverage)
with the z3-capturing backend.  Per feasible path (= support pattern of the considered
variants) the captured model is compared with the specification written from the
property text:

  vars     selectors exist exactly for (candidate minor x copy), keep-flags for defined
           variants, add-flags for considered variants in regions the allele has
  tie      every feasible point: per called major allele exactly its copy count of
           minors of that major, nothing else (R-a)
  rules    every feasible point: core variants kept (R-b); carried => allele has the
           region and the variant has reads (R-c,R-d); #carriers <= reads (R-e); <= 1
           non-insertion variant per site per allele (R-f); considered variant with reads
           and copies is carried at least once (R-g); products = AND of factors
  obj-lb / obj-wit   objective = fit error + miss/add/novel-core penalties (+ phase term)
  adm      every admissible assignment (symbolic copy counts, keep/add flags) is feasible
  planted  noise-free evidence from symbolic planted minors: planted point feasible with
           objective 0; objective >= 0; objective 0 => planted multiplicities, no add/miss
"""

import time
import collections
import z3

import symx
import gengene
import stagelib
from symx import S, Engine
from vcommon import new_result, ob
from aldy.gene import Mutation
from aldy.profile import Profile
from aldy.solutions import CNSolution, MajorSolution, SolvedAllele

PROPERTY = "C04"
LEVEL = "model_checking"
FUNCTIONS = [
    "aldy.minor.estimate_minor (evidence filter: shared with C15)",
    "aldy.coverage.Coverage.{coverage,total,filtered,basic_filter}",
    "aldy.minor.estimate_minor", "aldy.minor.solve_minor_model",
    "aldy.minor._print_candidates", "aldy.lpinterface.Gurobi.{prod,abssum,solutions}",
    "aldy.coverage.Coverage.{single_copy,__getitem__}",
    "aldy.gene.Gene.{has_coverage,is_functional,region_at}",
    "aldy.solutions.{CNSolution.position_cn,SolvedAllele.__hash__}",
]
STUBS = [
    "lpinterface.model -> z3-capturing backend (capture mode)",
    "observation lists have symbolic lengths (the real Coverage.coverage/total run on them with len/sum/float shadows); Coverage.filtered -> identity (C15)",
    "aldy.minor.max -> If-term max (no fork)",
    "coverage.sam -> object with a concrete .phases table (phase configurations only)",
]
OUTSIDE = [
    "CBC (C05); estimate_diplotype (C11); the read-out loop minor.py:474-514 incl. the "
    "homozygous-variant post-processing is decided on feasible points with <=1 dropped "
    "and <=1 added variant (mode 'readout'), elsewhere only by replays and the C05 tee",
    "more than 3 copies, more than 3 phase patterns, minor_phase_vars down-sampling",
]
ASSUMPTIONS = [
    "the tie-breaker (1 + index/1e6) on additions is an implementation detail: the spec "
    "objective is an interval [add*#added, add*#added*(1+K/1e6)] with K = number of add flags",
    "rule 6 (bound on un-carried variant slots per site) is taken from the model as part "
    "of admissibility; the property text does not state it",
]
D = 10


def BOUNDS(tier):
    return [
        "evidence: real-valued counts for every considered variant in [0, T_pos], "
        "T_pos = 10*cn(pos); all support patterns",
        "major solutions of 1-3 copies over toy, GA, GB, GC (both builds), fused alleles "
        "included; phase evidence: none, and <=3 concrete fragment patterns (toy, GA)",
        "planted part: symbolic integer copy counts per candidate minor allele",
    ]


def configs(tier):
    c = []
    toy = [(["1", "1"], {"1": 2}), (["1", "1"], {"1": 1, "2": 1}),
           (["1", "1"], {"1": 1, "3": 1}), (["1", "1"], {"2": 1, "3": 1}),
           (["1", "4"], {"1": 1, "4#1": 1}), (["1", "5"], {"1": 1, "5": 1}),
           (["1"], {"3": 1}), (["1", "1", "1"], {"1": 2, "3": 1}),
           (["1", "6"], {"1": 1, "6": 1})]
    ga = [(["1", "1"], {"1": 1, "2": 1}), (["1", "6"], {"2": 1, "6": 1}),
          (["1", "1"], {"3": 1, "4": 1}), (["1", "5"], {"1": 1, "5#1": 1}),
          (["1", "1"], {"8": 1, "9": 1}), (["1", "1", "1"], {"1": 1, "2": 2}),
          (["1", "5"], {"4": 1, "5#4": 1})]
    gb = [(["1", "1"], {"2": 1, "3": 1}), (["1", "1"], {"2": 2}),
          (["1", "1"], {"4": 1, "5": 1}),
          (["1", "1"], {"1": 1, "6": 1}), (["1"], {"5": 1})]
    gc = [(["1", "1"], {"2": 1, "3": 1}), (["1", "4"], {"3": 1, "4": 1}),
          (["1", "5"], {"2": 1, "5": 1})]
    sets = {"toy": toy, "GA": ga, "GB": gb, "GC": gc}
    for g, lst in sets.items():
        use = lst if tier == "thorough" else lst[:4]
        for genome in ("hg19", "hg38"):
            for cn, major in use:
                for mode in ("noise", "planted"):
                    c.append({"gene": g, "genome": genome, "cn": cn, "major": major,
                              "mode": mode, "phase": None})
    # major solutions that hand over a novel (non-catalogued) variant at a catalogued site
    for genome in ("hg19", "hg38"):
        c.append({"gene": "toy", "genome": genome, "cn": ["1", "1"], "major": {"1": 2},
                  "mode": "noise", "phase": None, "added": True})
        c.append({"gene": "GA", "genome": genome, "cn": ["1", "1"],
                  "major": {"1": 1, "4": 1}, "mode": "noise", "phase": None, "added": True})
        # ... refined together with another candidate (before / after it)
        for comp in ("first", "last"):
            c.append({"gene": "toy", "genome": genome, "cn": ["1", "1"], "major": {"1": 2},
                      "mode": "noise", "phase": None, "added": True, "company": comp})
        if tier == "thorough":
            c.append({"gene": "GB", "genome": genome, "cn": ["1", "1"],
                      "major": {"2": 1, "5": 1}, "mode": "noise", "phase": None,
                      "added": True})
    # read-out loop on arbitrary feasible points
    for g, cn, mj in (("toy", ["1", "1"], {"1": 1, "3": 1}),
                      ("GA", ["1", "1"], {"1": 1, "2": 1}),
                      ("GB", ["1", "1"], {"2": 1, "5": 1})) + (
            (("toy", ["1", "1"], {"2": 1, "3": 1}), ("GA", ["1", "6"], {"2": 1, "6": 1}))
            if tier == "thorough" else ()):
        for genome in ("hg19", "hg38"):
            c.append({"gene": g, "genome": genome, "cn": cn, "major": mj,
                      "mode": "readout", "phase": None})
    # two enumerated points (max_minor_solutions = 2): each becomes its own solution
    c.append({"gene": "toy", "genome": "hg19", "cn": ["1", "1"], "major": {"1": 2},
              "mode": "readout2", "phase": None})
    # phase configurations (concrete fragment patterns over catalogued sites)
    for genome in ("hg19", "hg38"):
        c.append({"gene": "toy", "genome": genome, "cn": ["1", "1"],
                  "major": {"1": 1, "3": 1}, "mode": "noise", "phase": "A"})
        c.append({"gene": "GA", "genome": genome, "cn": ["1", "1"],
                  "major": {"3": 1, "4": 1}, "mode": "noise", "phase": "A"})
        # (first site of GA *3/*4 is the insertion of *3, last the deletion of *4)
        c.append({"gene": "GA", "genome": genome, "cn": ["1", "1"],
                  "major": {"3": 1, "4": 1}, "mode": "noise", "phase": "C"})
        # fused alleles: fragments that span the fusion break point
        c.append({"gene": "toy", "genome": genome, "cn": ["1", "4"],
                  "major": {"1": 1, "4#3": 1}, "mode": "noise", "phase": "A"})
        c.append({"gene": "GA", "genome": genome, "cn": ["1", "5"],
                  "major": {"2": 1, "5#3": 1}, "mode": "noise", "phase": "A"})
        if tier == "thorough":
            c.append({"gene": "toy", "genome": genome, "cn": ["1", "1"],
                      "major": {"2": 1, "3": 1}, "mode": "noise", "phase": "B"})
            c.append({"gene": "GA", "genome": genome, "cn": ["1", "1", "1"],
                      "major": {"1": 1, "2": 2}, "mode": "noise", "phase": "B"})
    # the evidence filter of the minor stage where a called allele has no gene copy at a site
    # (shared with C15): a refined allele can only carry variants with qualifying support
    import c15
    for g, cn, mj in c15.MINOR_PARTIAL:
        c.append({"kind": "minor", "gene": g, "genome": "hg19", "cn": cn, "major": mj})
    # the clauses "first reported is optimal / all reported lie within the gap / complete"
    # rest on the solution enumerator: its contract on an uninterpreted model family
    # (shared with C05)
    for gap in ("0", "0.1", "sym"):
        c.append({"kind": "enum", "n": 2, "gap": gap, "limit": None})
    return c


class FakeSam:
    def __init__(self, phases):
        self.phases = phases
        self.name = "verif"


def novel_variants(gene, major, how):
    """a variant that is not in the catalogue, placed at the site of a catalogued SNP of
    the called alleles (the major stage can hand such variants over as 'added')."""
    if not how:
        return []
    base = considered(gene, major)
    snps = [m for m in base if len(m.op) == 3 and m.op[1] == ">"]
    if not snps:
        return []
    m = snps[0]
    other = [b for b in "ACGT" if b not in (m.op[0], m.op[2])
             and (m.pos, f"{m.op[0]}>{b}") not in gene.mutations][0]
    return [Mutation(m.pos, f"{m.op[0]}>{other}")]


def considered(gene, major, added=()):
    muts = set(added)
    for a in major:
        muts |= set(gene.alleles[a].func_muts)
        for mi in gene.alleles[a].minors.values():
            muts |= set(mi.neutral_muts)
    muts |= set(gene.random_mutations)
    return sorted(muts)


def minors_of(gene, major):
    return [(a, mi) for a in major for mi in gene.alleles[a].minors]


def defn(gene, a, mi):
    return set(gene.alleles[a].func_muts) | set(gene.alleles[a].minors[mi].neutral_muts)


def make_phases(gene, muts, which):
    """<=3 fragment patterns over the considered sites."""
    sites = sorted({m.pos for m in muts})
    if len(sites) < 2:
        return {}
    bypos = collections.defaultdict(list)
    for m in muts:
        bypos[m.pos].append(m.op)
    s0, s1 = sites[0], sites[-1]
    ph = {
        "r1": {s0: bypos[s0][0], s1: bypos[s1][0]},
        "r2": {s0: bypos[s0][0], s1: bypos[s1][0]},
        "r3": {s0: "_", s1: bypos[s1][0]},
    }
    if which == "B" and len(sites) > 2:
        ph["r4"] = {s0: "_", sites[1]: bypos[sites[1]][0], s1: "_"}
    if which == "C":
        # four fragments that link the first and the last site's variants: together they
        # outweigh the penalty of adding a variant to the allele that lacks it
        ph = {f"r{i}": {s0: bypos[s0][0], s1: bypos[s1][0]} for i in range(1, 5)}
    return ph


def run_readout(cfg):
    """
    The read-out loop (minor.py:474-514, incl. the homozygous-variant post-processing) on
    arbitrary feasible points of the model with at most one dropped and one added
    variant: solve() is a stub with symbolic variable values, the real loop forks on every
    value it reads; the MinorSolution it builds must be the decoded point.
    """
    import aldy.minor as minor
    import aldy.common

    res = new_result(cfg)
    gene = gengene.load(cfg["gene"], cfg["genome"])
    cn_list = list(cfg["cn"])
    major = dict(cfg["major"])
    profile = Profile("verif")
    muts = considered(gene, major)
    cands = minors_of(gene, major)
    copies = [(a, mi, i) for (a, mi) in cands for i in range(major[a])]
    cn_sol = CNSolution(gene, 0, cn_list)
    base, xs, counts, totals = [], {}, {}, {}
    for m in muts:
        totals[m.pos] = D * stagelib.position_cn(gene, cn_list, m.pos)
    bypos = collections.defaultdict(list)
    for m in muts:
        x = z3.Real(f"x_{m.pos}_{m.op}")
        xs[m] = x
        base += [x >= 0, x <= totals[m.pos]]
        counts[m] = S(x)
        if not stagelib.is_ins(m):
            bypos[m.pos].append(x)
    for pos in {m.pos for m in muts}:
        alts = bypos.get(pos, [])
        if alts:
            base.append(z3.Sum(alts) <= totals[pos])
        counts[Mutation(pos, "_")] = S(totals[pos] - (z3.Sum(alts) if alts else 0))
    cov = stagelib.SymCoverage(gene, profile, counts, totals)
    msol = MajorSolution(0, {SolvedAllele(gene, a): c for a, c in major.items()}, cn_sol, [])
    eng = Engine(name="c04r", timeout_ms=120000)
    tag = f"readout/{cfg['gene']}/{cfg['genome']}/" + "+".join(f"{k}x{v}"
                                                               for k, v in major.items())
    state = {}

    two = cfg["mode"] == "readout2"

    def bound(model):
        drop, add = [], []
        for c in copies:
            va = model.byraw.get(Names.A(*c))
            for v in muts:
                k = model.byraw.get(Names.K(v, *c))
                n = model.byraw.get(Names.N(v, *c))
                if k is not None and va is not None:
                    drop.append(z3.If(z3.And(va.zv, z3.Not(k.zv)), 1, 0))
                if n is not None:
                    add.append(z3.If(n.zv, 1, 0))
        return [z3.Sum(drop or [z3.IntVal(0)]) <= (0 if two else 1),
                z3.Sum(add or [z3.IntVal(0)]) <= 1]

    saved_max = minor.__dict__.get("max")
    minor.max = symx.smax

    def run():
        aldy.common.json.clear()
        oracle = symx.PointOracle(eng, bound, points=2 if two else 1)
        with symx.install(oracle=oracle) as inst:
            ys = []
            state["ys"] = ys
            if two:
                orig = inst.cls.solutions

                def recording(self, *a, **k):
                    if len(a) > 1 or k:
                        yield from orig(self, *a, **k)
                        return
                    for y in orig(self, *a, **k):
                        ys.append(y)
                        yield y

                inst.cls.solutions = recording
            r = minor.estimate_minor(gene, cov, [msol], "z3", **(
                {"max_solutions": 2} if two else {}))
            state["m"] = inst.models[-1] if inst.models else None
            return r

    max_cn = len(cn_list)
    try:
        for dec, pc, sols in eng.explore(run, base, max_paths=100000):
            m = state["m"]
            if m is None or not sols:
                continue
            if two:
                # every yielded point becomes its own solution: as many allele copies as
                # the structure has, no list shared between solutions, at most one solution
                # per yielded point
                ncop = sum(major.values())
                good = (1 <= len(sols) <= len(state["ys"])
                        and all(len(s_.solution) == ncop for s_ in sols)
                        and len({id(s_.solution) for s_ in sols}) == len(sols)
                        and all(sorted(i for h in s_.get_diplotype() for i in h if i != -1)
                                == list(range(ncop)) for s_ in sols))
                ob(res, f"{tag}: two enumerated points give separate, complete solutions",
                   "holds" if good else "sat")
                if not good and not res["violations"]:
                    res["violations"].append({
                        "what": f"{tag}: {len(state['ys'])} enumerated points are read out "
                                f"as {[x._solution_nice() for x in sols]}",
                        "key": "readout2", "replay": {"kind": "none2"}})
                continue
            st, mdl = eng.satisfiable([])
            if st != "sat":
                continue
            val = {v.raw: bool(symx.model_value(mdl, v.zv)) for v in m.vars if v.kind == "B"}
            want = []
            for c in copies:
                if not val.get(Names.A(*c)):
                    continue
                d = defn(gene, c[0], c[1])
                missing = {v for v in d if not val.get(Names.K(v, *c))}
                added = {v for v in muts if val.get(Names.N(v, *c))}
                opt_hack = set()
                for v in muts:
                    if Names.N(v, *c) in val and v not in added:
                        cn = stagelib.position_cn(gene, cn_list, v.pos)
                        t = totals.get(v.pos, 0)
                        if cn and t:
                            obs = xs[v] * cn / t
                            if eng.prove([], z3.And(obs - max_cn <= symx.q(1e-5),
                                                    max_cn - obs <= symx.q(1e-5)))[0] == "unsat":
                                opt_hack.add(v)
                want.append((c[0], c[1], added, missing, opt_hack))
            good = len(sols) == 1 and len(sols[0].solution) == len(want)
            if good:
                s = sols[0]
                got = sorted(((a.major, a.minor, frozenset(a.added), frozenset(a.missing))
                              for a in s.solution), key=repr)
                exp = sorted(((w[0], w[1], frozenset(w[2] | w[4]), frozenset(w[3]))
                              for w in want), key=repr)
                good = (got == exp and s.major_solution is msol and isinstance(s.score, S)
                        and z3.eq(z3.simplify(s.score.t), z3.simplify(m.obj_z3()))
                        and sorted(i for h in s.get_diplotype() for i in h if i != -1)
                        == list(range(len(s.solution))))
            ob(res, f"{tag}: read-out builds exactly the decoded point (minor per copy, "
                    "lost = un-kept, added = flagged + homozygous, objective, diplotype)",
               "holds" if good else "sat")
            if not good and not res["violations"]:
                named = [c_.z3() for c_ in m.constrs if c_.name and c_.name[0] is not None]
                fix = [(v.zv if val[v.raw] else z3.Not(v.zv)) for v in m.vars
                       if v.kind == "B"]
                violation(eng, res, cfg, xs, totals, named + fix, m.obj_z3(),
                          f"read-out of a model point gives "
                          f"{[x._solution_nice() for x in sols]}, decoded point is "
                          f"{[(w[0], w[1], sorted(map(str, w[2])), sorted(map(str, w[3]))) for w in want]}",
                          "readout")
    finally:
        if saved_max is None:
            minor.__dict__.pop("max", None)
        else:
            minor.max = saved_max
    res["stats"] = {**dict(eng.stats), **res["stats"]}
    res["obligations"] = [{"label": o["label"], "status": o["status"], "secs": 0}
                          for o in res["obligations"]]
    return res


def run_config(cfg):
    import aldy.minor as minor
    import aldy.common

    if cfg.get("kind") == "enum":
        import c05
        return c05.run_enum(cfg)
    if cfg.get("kind") == "minor":
        import c15
        return c15.run_minor(cfg)
    if cfg["mode"] in ("readout", "readout2"):
        return run_readout(cfg)
    res = new_result(cfg)
    gene = gengene.load(cfg["gene"], cfg["genome"])
    cn_list = list(cfg["cn"])
    major = dict(cfg["major"])
    profile = Profile("verif")
    added = novel_variants(gene, major, cfg.get("added"))
    muts = considered(gene, major, added)
    cands = minors_of(gene, major)
    cn_sol = CNSolution(gene, 0, cn_list)
    base, xs, counts, totals = [], {}, {}, {}
    planted = None
    for m in muts:
        totals[m.pos] = D * stagelib.position_cn(gene, cn_list, m.pos)
    if cfg["mode"] == "planted":
        planted = {}
        for a, cnt in major.items():
            ps = []
            for mi in gene.alleles[a].minors:
                p = z3.Int(f"p_{a}_{mi}")
                planted[a, mi] = p
                base.append(p >= 0)
                ps.append(p)
            base.append(z3.Sum(ps) == cnt)
        for m in muts:
            t = z3.Sum([planted[k] for k in planted if m in defn(gene, *k)]
                       or [z3.IntVal(0)])
            xs[m] = z3.ToReal(D * t)
    else:
        for m in muts:
            x = z3.Real(f"x_{m.pos}_{m.op}")
            xs[m] = x
            base += [x >= 0, x <= totals[m.pos]]
    bypos = collections.defaultdict(list)
    for m in muts:
        counts[m] = S(xs[m])
        if not stagelib.is_ins(m):
            bypos[m.pos].append(xs[m])
    for pos in {m.pos for m in muts}:
        alts = bypos.get(pos, [])
        if alts and cfg["mode"] != "planted":
            base.append(z3.Sum(alts) <= totals[pos])
        counts[Mutation(pos, "_")] = S(totals[pos] - (z3.Sum(alts) if alts else 0))
    sam = None
    phases = {}
    if cfg.get("phase"):
        phases = make_phases(gene, muts, cfg["phase"])
        sam = FakeSam(phases)
    cov = stagelib.SymCoverage(gene, profile, counts, totals, sam=sam)
    msol = MajorSolution(0, {SolvedAllele(gene, a): c for a, c in major.items()}, cn_sol,
                         list(added))
    eng = Engine(name="c04", timeout_ms=120000)
    saved_max = minor.__dict__.get("max")
    minor.max = symx.smax

    # company: a second major solution with the same alleles but without the novel variant
    # is refined in the same call (before / after); the model built for `msol` must still
    # be the specified one (considered variants are pooled over all candidates)
    lst = [msol]
    if cfg.get("company"):
        other = MajorSolution(0, {SolvedAllele(gene, a): c for a, c in major.items()},
                              cn_sol, [])
        lst = [msol, other] if cfg["company"] == "first" else [other, msol]
    real_solve = minor.solve_minor_model
    built = {}

    def spy(gene_, cov_, major_sol, *a, **k):
        inst = built["inst"]
        n0 = len(inst.models)
        try:
            return real_solve(gene_, cov_, major_sol, *a, **k)
        finally:
            if major_sol is msol and len(inst.models) > n0:
                built["model"] = inst.models[n0]

    def run():
        aldy.common.json.clear()
        built.pop("model", None)
        with symx.install() as inst:
            built["inst"] = inst
            minor.solve_minor_model = spy
            try:
                r = minor.estimate_minor(gene, cov, lst, "z3")
            finally:
                minor.solve_minor_model = real_solve
            return built.get("model"), r

    try:
        npaths = 0
        for dec, pc, (m, r) in eng.explore(run, base, max_paths=20000):
            npaths += 1
            check_path(eng, res, cfg, gene, cn_list, major, profile, muts, cands, counts,
                       totals, xs, planted, phases, m, npaths)
    finally:
        if saved_max is None:
            minor.__dict__.pop("max", None)
        else:
            minor.max = saved_max
    res["stats"] = {**dict(eng.stats), **res["stats"]}
    return res


def entails(eng, goal):
    st, _ = eng.prove([], goal)
    return st == "unsat"


def zsum(xs):
    xs = list(xs)
    return z3.Sum(xs) if xs else z3.RealVal(0)


def zabs(t):
    t = symx.tz(t)
    return z3.If(t >= 0, t, -t)


class Names:
    """raw variable names aldy is expected to use (the only coupling to the builder)."""

    @staticmethod
    def A(a, mi, i):
        return f"A_{a}_{mi}_{i}"

    @staticmethod
    def K(m, a, mi, i):
        return f"K_{m.pos}_{m.op}_{a}_{mi}_{i}"

    @staticmethod
    def N(m, a, mi, i):
        return f"N_{m.pos}_{m.op}_{a}_{mi}_{i}"


def check_path(eng, res, *a):
    n0 = len(eng.pc)
    try:
        return _check_path(eng, res, *a)
    finally:
        del eng.pc[n0:]


def _check_path(eng, res, cfg, gene, cn_list, major, profile, muts, cands, counts, totals,
                xs, planted, phases, m, pidx):
    tag = (f"{cfg['gene']}/{cfg['genome']}/{','.join(cn_list)}/"
           f"{'+'.join(f'{k}x{v}' for k, v in major.items())}/{cfg['mode']}"
           + ("/novel" if cfg.get("added") else "")
           + (f"/company-{cfg['company']}" if cfg.get("company") else "")
           + (f"/phase{cfg['phase']}" if cfg.get("phase") else ""))
    if m is None:
        ob(res, f"{tag}: a model is built", "sat")
        return
    sup = {}
    for v in muts:
        if entails(eng, xs[v] > 0):
            sup[v] = True
        elif entails(eng, xs[v] <= 0):
            sup[v] = False
        else:
            # the code never looked at this variant's reads: decide the case "it has
            # reads" (where the specification wants it in the model)
            eng.pc.append(xs[v] > 0)
            sup[v] = True
    cons = m.z3_constraints()
    copies = [(a, mi, i) for (a, mi) in cands for i in range(major[a])]
    has_reg = lambda a, pos: stagelib.allele_has_region(gene, a, pos)  # noqa
    VA, VK, VN, MK, MN = {}, {}, {}, {}, {}
    expected = set()
    for (a, mi, i) in copies:
        expected.add(Names.A(a, mi, i))
        for v in defn(gene, a, mi):
            expected |= {Names.K(v, a, mi, i), "MUL_" + Names.K(v, a, mi, i)}
        for v in muts:
            if v not in defn(gene, a, mi) and has_reg(a, v.pos):
                expected |= {Names.N(v, a, mi, i), "MUL_" + Names.N(v, a, mi, i)}
    selectors = {v.raw for v in m.vars
                 if v.raw.split("_")[0] in ("A", "K", "N") or v.raw.startswith("MUL_")}
    okv = selectors == expected
    ob(res, f"{tag}: vars: selectors / keep flags / add flags exist exactly where the "
            "spec allows", "holds" if okv else "sat", path=pidx)
    if not okv:
        violation(eng, res, cfg, xs, totals, [], None,
                  f"variables differ from spec: {sorted(selectors ^ expected)[:6]}", "vars")
        return
    for (a, mi, i) in copies:
        VA[a, mi, i] = m.byraw[Names.A(a, mi, i)]
        for v in defn(gene, a, mi):
            VK[a, mi, i, v] = m.byraw[Names.K(v, a, mi, i)]
            MK[a, mi, i, v] = m.byraw["MUL_" + Names.K(v, a, mi, i)]
        for v in muts:
            if v not in defn(gene, a, mi) and has_reg(a, v.pos):
                VN[a, mi, i, v] = m.byraw[Names.N(v, a, mi, i)]
                MN[a, mi, i, v] = m.byraw["MUL_" + Names.N(v, a, mi, i)]
    obj = m.obj_z3()

    def prove(label, goal, key, hyps=None):
        t0 = time.time()
        h = cons if hyps is None else hyps
        st, mdl = eng.prove(h, goal)
        ob(res, f"{tag}: {label}", st, time.time() - t0, path=pidx)
        if st == "sat":
            violation(eng, res, cfg, xs, totals, h + [z3.Not(goal)], obj, label, key)
        return st

    # ---- R-a tie to the major call
    g = []
    for a, cnt in major.items():
        g.append(zsum(VA[c].num() for c in copies if c[0] == a) == cnt)
    prove("tie: each called major allele gets exactly its copies of its own minors",
          z3.And(g), "tie")
    # ---- rules at every feasible point
    carried = {}  # (copy, variant) -> Bool : the allele copy is reported to carry it
    for c in copies:
        for v in muts:
            if c + (v,) in VK:
                carried[c, v] = z3.And(VA[c].zv, VK[c + (v,)].zv)
            elif c + (v,) in VN:
                carried[c, v] = z3.And(VA[c].zv, VN[c + (v,)].zv)
    g = []
    for c in copies:
        a = c[0]
        for v in defn(gene, a, c[1]):
            if gene.is_functional(v):
                g.append(z3.Implies(VA[c].zv, VK[c + (v,)].zv))  # R-b
        for v in muts:
            if (c, v) in carried:
                ok = has_reg(a, v.pos) and sup[v]
                g.append(z3.Implies(carried[c, v], z3.BoolVal(bool(ok))))  # R-c, R-d
        for pos in {v.pos for v in muts}:
            at = [z3.If(carried[c, v], 1, 0) for v in muts
                  if v.pos == pos and (c, v) in carried and not stagelib.is_ins(v)]
            if len(at) > 1:
                g.append(z3.Sum(at) <= 1)  # R-f
        # flags only on used alleles
        for v in muts:
            if c + (v,) in VK:
                g.append(z3.Implies(VK[c + (v,)].zv, VA[c].zv))
            if c + (v,) in VN:
                g.append(z3.Implies(VN[c + (v,)].zv, VA[c].zv))
    for v in muts:
        k = zsum(z3.If(carried[c, v], 1, 0) for c in copies if (c, v) in carried)
        g.append(k <= z3.If(xs[v] > 0, xs[v], 0))  # R-e
        if sup[v] and stagelib.position_cn(gene, cn_list, v.pos) > 0:
            g.append(k >= 1)  # R-g
    prove("rules: core kept; carried => region+reads; #carriers<=reads; one per site; "
          "supported variant carried at least once", z3.And(g), "rules")
    # products are exact
    g = []
    for key_, mv in list(MK.items()):
        g.append(mv.zv == z3.And(VA[key_[:3]].zv, VK[key_].zv))
    for key_, mv in list(MN.items()):
        g.append(mv.zv == z3.And(VA[key_[:3]].zv, VN[key_].zv))
    prove("prod: product variables equal the AND of selector and flag",
          z3.And(g or [z3.BoolVal(True)]), "prod")
    # ---- objective
    spec_lo, spec_hi, terms, phase_term = spec_objective(
        gene, cn_list, profile, muts, copies, counts, totals, carried, VA, VK, VN, m,
        phases)
    if phase_term is None and phases:
        ob(res, f"{tag}: phase variables identified", "sat", path=pidx)
    prove("obj-lb: objective >= fit error + miss/add/novel-core (+phase) penalties",
          obj >= spec_lo, "obj")
    subs = witness_subst(m, terms, carried, VA, VN, copies, muts, gene)
    if subs is None:
        ob(res, f"{tag}: obj-wit: continuous/auxiliary variables identified", "sat",
           path=pidx)
        violation(eng, res, cfg, xs, totals, [], None, "model has auxiliary variables the "
                  "specification cannot interpret", "objwit")
    else:
        binc = [c.z3() for c in m.constrs if all(v.kind == "B" for v in c.vars())]
        goal = z3.substitute(z3.And(cons + [obj <= spec_hi]), *subs)
        prove("obj-wit: E=residual, ABS=|E|, aux=definition is feasible and attains the "
              "spec objective", goal, "obj", hyps=binc)
    # ---- admissible => feasible (phase-free configurations)
    if not phases:
        adm_check(eng, res, prove, tag, gene, cn_list, major, profile, muts, cands, copies,
                  counts, totals, xs, sup, m, cons)
    st, _ = eng.satisfiable(cons)
    # a model may legitimately be infeasible (e.g. a core variant without reads)
    ob(res, f"{tag}: reachability twin evaluated", "confirmed" if st in ("sat", "unsat")
       else "unknown", path=pidx, feasible=st)
    res["stats"]["feasible_paths"] = res["stats"].get("feasible_paths", 0) + (st == "sat")
    if planted is not None:
        planted_check(eng, res, prove, tag, gene, cn_list, major, profile, muts, copies,
                      counts, totals, planted, m, cons, obj, carried, VA, VK, VN)
    if len(res["samples"]) < 2:
        res["samples"].append({"config": tag,
                               "support": [str(v) for v in muts if sup[v]],
                               "copies": [list(c) for c in copies][:6],
                               "model_vars": len(m.vars), "constraints": len(m.constrs)})


def fit_terms(gene, cn_list, muts, copies, counts, totals, carried_num, called_num):
    """residuals of the documented fit error; carried_num[(copy, v)] and called_num[copy]
    are numeric z3 terms (0/1)."""
    terms = []
    for v in muts:
        cn = stagelib.position_cn(gene, cn_list, v.pos)
        obs = stagelib.observed_copies(counts[v], totals.get(v.pos, 0), cn)
        k = zsum(carried_num[c, v] for c in copies if (c, v) in carried_num)
        terms.append((v, symx.tz(obs) - k))
    for pos in sorted({v.pos for v in muts}):
        cn = stagelib.position_cn(gene, cn_list, pos)
        ref = Mutation(pos, "_")
        obs = stagelib.observed_copies(counts[ref], totals.get(pos, 0), cn)
        k = []
        for c in copies:
            if not stagelib.allele_has_region(gene, c[0], pos):
                continue
            k.append(called_num[c] - zsum(carried_num[c, v] for v in muts
                                          if v.pos == pos and not stagelib.is_ins(v)
                                          and (c, v) in carried_num))
        terms.append((ref, symx.tz(obs) - zsum(k)))
    return terms


def spec_objective(gene, cn_list, profile, muts, copies, counts, totals, carried, VA, VK,
                   VN, m, phases):
    cnum = {k: z3.If(b, z3.RealVal(1), z3.RealVal(0)) for k, b in carried.items()}
    called = {c: VA[c].num() for c in copies}
    terms = fit_terms(gene, cn_list, muts, copies, counts, totals, cnum, called)
    fit = zsum(zabs(t) for _, t in terms)
    miss = zsum(z3.If(z3.And(VA[k[:3]].zv, z3.Not(VK[k].zv)), 1, 0) for k in VK)
    nadd = zsum(z3.If(VN[k].zv, 1, 0) for k in VN)
    novel = []
    for v in muts:
        vs = [VN[k].zv for k in VN if k[3] == v and gene.is_functional(v)
              and v not in gene.alleles[k[0]].func_muts]
        if vs:
            novel.append(z3.If(z3.Or(vs), 1, 0))
    K = len(VN)
    base = (fit + symx.q(profile.minor_miss) * miss
            + symx.q(profile.minor_add / 2) * zsum(novel))
    phase_term = None
    lo_phase = z3.RealVal(0)
    hi_phase = z3.RealVal(0)
    if phases:
        phase_term = phase_spec(gene, profile, muts, copies, VA, VK, VN, m, phases)
        if phase_term is not None:
            lo_phase = hi_phase = symx.q(profile.minor_phase) * phase_term
    lo = base + symx.q(profile.minor_add) * nadd + lo_phase
    hi = base + symx.q(profile.minor_add * (1 + K / 1000000.0)) * nadd + hi_phase
    return lo, hi, terms, phase_term


def phase_spec(gene, profile, muts, copies, VA, VK, VN, m, phases):
    """
    Phase disagreement of the decoded assignment: every fragment pattern (>=2 considered
    sites) is assigned to exactly one called allele copy that has >=2 flagged/flaggable
    variants on its sites; it costs, per occurrence, the number of the pattern's shown
    alleles the copy does not carry plus the number of other variants it carries there.
    The assignment is the model's own (PH_ variables): the spec is stated for it.
    """
    mut_pos = {v.pos for v in muts}
    modes = collections.defaultdict(int)
    for rr, rv in phases.items():
        c = sorted((k, v) for k, v in rv.items() if k in mut_pos)
        if len(c) > 1:
            modes[tuple(c)] += 1
    total = []
    # the builder numbers allele copies in its own construction order: copy 0 of every
    # candidate first, then the further copies candidate by candidate
    firsts = [c for c in copies if c[2] == 0]
    order = firsts + [c for f in firsts for c in copies
                      if c[:2] == f[:2] and c[2] > 0]
    for ri, (rr, cnt) in enumerate(modes.items()):
        r = dict(rr)
        for ai, c in enumerate(order):
            pos, neg = [], []
            for v in muts:
                if v.pos not in r or not stagelib.allele_has_region(gene, c[0], v.pos):
                    continue
                flag = VK.get(c + (v,)) or VN.get(c + (v,))
                if flag is None:
                    continue
                (pos if v.op == r[v.pos] else neg).append(flag.zv)
            raw = f"PH_{ai}_{ri}"
            if len(pos) + len(neg) > 1:
                if raw not in m.byraw:
                    return None
                ph = m.byraw[raw].zv
                e = zsum([z3.If(z3.And(ph, z3.Not(p)), 1, 0) for p in pos]
                         + [z3.If(z3.And(ph, n), 1, 0) for n in neg])
                total.append(cnt * e)
            elif raw in m.byraw:
                return None
    return zsum(total)


def witness_subst(m, terms, carried, VA, VN, copies, muts, gene):
    tmap = {}
    for mm, t in terms:
        raw = f"E_{mm.pos}_REF" if mm.op == "_" else f"E_{mm.pos}_{mm.op}"
        tmap[raw] = symx.tz(t)
    subs = []
    for v in m.vars:
        if v.kind == "B":
            continue
        if v.raw in tmap:
            subs.append((v.zv, tmap[v.raw]))
        elif v.raw.startswith("ABS_"):
            src = [w for w in m.vars if w.name == v.raw[4:]]
            if len(src) != 1 or src[0].raw not in tmap:
                return None
            t = tmap[src[0].raw]
            subs.append((v.zv, z3.If(t >= 0, t, -t)))
        else:
            return None
    return subs


def aux_subst(m, gene, muts, VN_expr, phases):
    """definitions of auxiliary binaries (VNEWOR_*) from flag expressions."""
    subs = []
    for v in m.vars:
        if v.raw.startswith("VNEWOR_"):
            key = v.raw[len("VNEWOR_"):]
            mv = [x for x in muts if f"{x.pos}_{x.op}" == key]
            if len(mv) != 1:
                return None
            x = mv[0]
            vs = [e for k, e in VN_expr.items() if k[3] == x and gene.is_functional(x)
                  and x not in gene.alleles[k[0]].func_muts]
            subs.append((v.zv, z3.Or(vs) if vs else z3.BoolVal(False)))
    return subs


def spec_formula(gene, cn_list, major, profile, muts, cands, copies, counts, totals,
                 xs, sup, phases=None, prefix=""):
    """
    The specification as a formula over its own variables: copy counts per candidate
    minor, keep/add flags per copy (and, with phase evidence, one owner copy per fragment
    pattern).  Returns dict(nn, called, keep, add, car, hyp, terms, obj_lo, obj_hi).
    counts/xs may be symbolic or concrete numbers.
    """
    nn = {(a, mi): z3.Int(f"{prefix}n_{a}_{mi}") for (a, mi) in cands}
    hyp = [z3.And(nn[k] >= 0, nn[k] <= major[k[0]]) for k in nn]
    for a, cnt in major.items():
        hyp.append(z3.Sum([nn[k] for k in nn if k[0] == a]) == cnt)
    called = {c: nn[c[0], c[1]] > c[2] for c in copies}
    keep, add = {}, {}
    for c in copies:
        for v in defn(gene, c[0], c[1]):
            keep[c + (v,)] = z3.Bool(f"{prefix}keep_{c}_{v}")
        for v in muts:
            if v not in defn(gene, c[0], c[1]) and stagelib.allele_has_region(
                    gene, c[0], v.pos):
                add[c + (v,)] = z3.Bool(f"{prefix}add_{c}_{v}")
    car = {}
    for k, b in keep.items():
        car[k[:3], k[3]] = z3.And(called[k[:3]], b)
    for k, b in add.items():
        car[k[:3], k[3]] = z3.And(called[k[:3]], b)
    # admissibility (property text + rule 6)
    for k, b in list(keep.items()) + list(add.items()):
        hyp.append(z3.Implies(b, called[k[:3]]))
    for c in copies:
        for v in defn(gene, c[0], c[1]):
            if gene.is_functional(v):
                hyp.append(z3.Implies(called[c], keep[c + (v,)]))
            if not stagelib.allele_has_region(gene, c[0], v.pos):
                hyp.append(z3.Not(keep[c + (v,)]))
        for pos in {v.pos for v in muts}:
            at = [z3.If(car[c, v], 1, 0) for v in muts if v.pos == pos and (c, v) in car]
            ad = [z3.If(add[c + (v,)], 1, 0) for v in muts
                  if v.pos == pos and c + (v,) in add]
            adn = [z3.If(add[c + (v,)], 1, 0) for v in muts
                   if v.pos == pos and c + (v,) in add and not stagelib.is_ins(v)]
            if len(at) > 1:
                hyp.append(z3.Sum(at) <= 1)
            if len(ad) > 1:
                hyp.append(z3.Sum(ad) <= 1)
            if len(adn) > 1:
                hyp.append(z3.Sum(adn) <= 1)
    for v in muts:
        k = zsum(z3.If(car[c, v], 1, 0) for c in copies if (c, v) in car)
        cn = stagelib.position_cn(gene, cn_list, v.pos)
        if cn == 0 or not sup[v]:
            hyp.append(k <= 0)
        else:
            hyp += [k <= symx.tz(xs[v]), k >= 1]
    for pos in {v.pos for v in muts}:
        cn = stagelib.position_cn(gene, cn_list, pos)
        slots, maxm = [], 0
        for c in copies:
            e = [car[c, v] for v in muts if v.pos == pos and (c, v) in car]
            maxm = max(maxm, len(e))
            slots.append(len(e) * z3.If(called[c], 1, 0) - zsum(z3.If(b, 1, 0) for b in e))
        if maxm == 0:
            continue
        ref = symx.tz(counts.get(Mutation(pos, "_"), 0))
        bound = z3.If(ref > max(cn, maxm), ref, z3.RealVal(max(cn, maxm)))
        hyp.append(zsum(slots) <= (0 if cn == 0 else bound))
    cnum = {k: z3.If(b, z3.RealVal(1), z3.RealVal(0)) for k, b in car.items()}
    callednum = {c: z3.If(called[c], z3.RealVal(1), z3.RealVal(0)) for c in copies}
    cts = {v: counts.get(v, 0) for v in muts}
    for pos in {v.pos for v in muts}:
        cts[Mutation(pos, "_")] = counts.get(Mutation(pos, "_"), 0)
    terms = fit_terms(gene, cn_list, muts, copies, cts, totals, cnum, callednum)
    fit = zsum(zabs(t) for _, t in terms)
    miss = zsum(z3.If(z3.And(called[k[:3]], z3.Not(keep[k])), 1, 0) for k in keep)
    nadd = zsum(z3.If(add[k], 1, 0) for k in add)
    novel = []
    for v in muts:
        vs = [add[k] for k in add if k[3] == v and gene.is_functional(v)
              and v not in gene.alleles[k[0]].func_muts]
        if vs:
            novel.append(z3.If(z3.Or(vs), 1, 0))
    phase = z3.RealVal(0)
    if phases:
        mut_pos = {v.pos for v in muts}
        modes = collections.defaultdict(int)
        for rr, rv in phases.items():
            cc = sorted((k, v) for k, v in rv.items() if k in mut_pos)
            if len(cc) > 1:
                modes[tuple(cc)] += 1
        tot = []
        for ri, (rr, cnt) in enumerate(modes.items()):
            r = dict(rr)
            owners = []
            for c in copies:
                pos_, neg_ = [], []
                for v in muts:
                    if v.pos not in r or not stagelib.allele_has_region(gene, c[0], v.pos):
                        continue
                    flag = keep.get(c + (v,))
                    if flag is None:
                        flag = add.get(c + (v,))
                    if flag is None:
                        continue
                    (pos_ if v.op == r[v.pos] else neg_).append(flag)
                if len(pos_) + len(neg_) > 1:
                    ph = z3.Bool(f"{prefix}ph_{ri}_{c}")
                    owners.append(ph)
                    hyp.append(z3.Implies(ph, called[c]))
                    tot.append(cnt * zsum([z3.If(z3.And(ph, z3.Not(p_)), 1, 0)
                                           for p_ in pos_]
                                          + [z3.If(z3.And(ph, n_), 1, 0) for n_ in neg_]))
            if owners:
                hyp.append(z3.Sum([z3.If(o, 1, 0) for o in owners]) == 1)
        phase = zsum(tot)
    base = (fit + symx.q(profile.minor_miss) * miss
            + symx.q(profile.minor_add / 2) * zsum(novel)
            + symx.q(profile.minor_phase) * phase)
    K = len(add)
    return {
        "nn": nn, "called": called, "keep": keep, "add": add, "car": car, "hyp": hyp,
        "terms": terms,
        "obj_lo": base + symx.q(profile.minor_add) * nadd,
        "obj_hi": base + symx.q(profile.minor_add * (1 + K / 1000000.0)) * nadd,
    }


def adm_check(eng, res, prove, tag, gene, cn_list, major, profile, muts, cands, copies,
              counts, totals, xs, sup, m, cons):
    """every admissible assignment (symbolic copy counts, keep/add flags) is feasible."""
    sp = spec_formula(gene, cn_list, major, profile, muts, cands, copies, counts, totals,
                      xs, sup)
    subs = encoding_subst(m, gene, muts, copies, sp["called"], sp["keep"], sp["add"],
                          sp["terms"])
    if subs is None:
        ob(res, f"{tag}: adm: all model variables have a spec meaning", "sat")
        return
    prove("adm: every admissible assignment has a feasible point",
          z3.substitute(z3.And(cons), *subs), "adm", hyps=sp["hyp"])


def encoding_subst(m, gene, muts, copies, called, keep, add, terms):
    tmap = {}
    for mm, t in terms:
        raw = f"E_{mm.pos}_REF" if mm.op == "_" else f"E_{mm.pos}_{mm.op}"
        tmap[raw] = symx.tz(t)
    byraw = {}
    for c in copies:
        byraw[Names.A(*c)] = called[c]
    for k, b in keep.items():
        byraw[Names.K(k[3], *k[:3])] = b
        byraw["MUL_" + Names.K(k[3], *k[:3])] = z3.And(called[k[:3]], b)
    for k, b in add.items():
        byraw[Names.N(k[3], *k[:3])] = b
        byraw["MUL_" + Names.N(k[3], *k[:3])] = z3.And(called[k[:3]], b)
    subs = []
    aux = aux_subst(m, gene, muts, add, None)
    if aux is None:
        return None
    auxd = {str(a): b for a, b in aux}
    for v in m.vars:
        if v.raw in byraw:
            subs.append((v.zv, byraw[v.raw]))
        elif v.raw in tmap:
            subs.append((v.zv, tmap[v.raw]))
        elif v.raw.startswith("ABS_"):
            src = [w for w in m.vars if w.name == v.raw[4:]]
            if len(src) != 1 or src[0].raw not in tmap:
                return None
            t = tmap[src[0].raw]
            subs.append((v.zv, z3.If(t >= 0, t, -t)))
        elif str(v.zv) in auxd:
            subs.append((v.zv, auxd[str(v.zv)]))
        else:
            return None
    return subs


def planted_check(eng, res, prove, tag, gene, cn_list, major, profile, muts, copies,
                  counts, totals, planted, m, cons, obj, carried, VA, VK, VN):
    called = {c: planted[c[0], c[1]] > c[2] for c in copies}
    keep = {c + (v,): called[c] for c in copies for v in defn(gene, c[0], c[1])}
    add = {c + (v,): z3.BoolVal(False) for c in copies for v in muts
           if v not in defn(gene, c[0], c[1])
           and stagelib.allele_has_region(gene, c[0], v.pos)}
    car = {}
    for k, b in keep.items():
        car[k[:3], k[3]] = b
    for k, b in add.items():
        car[k[:3], k[3]] = b
    cnum = {k: z3.If(b, z3.RealVal(1), z3.RealVal(0)) for k, b in car.items()}
    callednum = {c: z3.If(called[c], z3.RealVal(1), z3.RealVal(0)) for c in copies}
    terms = fit_terms(gene, cn_list, muts, copies, counts, totals, cnum, callednum)
    subs = encoding_subst(m, gene, muts, copies, called, keep, add, terms)
    # the planted point must keep every defined variant: only possible where the allele
    # has the region; partial alleles drop such variants at load time (C09), so this is
    # a precondition checked here.
    pre = all(stagelib.allele_has_region(gene, c[0], v.pos)
              for c in copies for v in defn(gene, c[0], c[1]))
    if subs is not None and pre:
        prove("planted: the planted minors (all kept, none added) are feasible with "
              "objective 0", z3.substitute(z3.And(cons + [obj == 0]), *subs), "planted",
              hyps=[])
    prove("planted: objective >= 0", obj >= 0, "planted")
    mult = []
    for v in muts:
        k = zsum(z3.If(carried[c, v], 1, 0) for c in copies if (c, v) in carried)
        p = zsum(z3.ToReal(planted[a, mi]) for (a, mi) in planted if v in defn(gene, a, mi))
        mult.append(k == p)
    nomiss = [z3.Implies(VA[k[:3]].zv, VK[k].zv) for k in VK]
    noadd = [z3.Not(VN[k].zv) for k in VN]
    prove("planted: objective 0 => carried multiplicities = planted, nothing added or lost",
          z3.And(mult + nomiss + noadd), "planted", hyps=cons + [obj == 0])


# ------------------------------------------------------------------ counterexamples


def violation(eng, res, cfg, xs, totals, hyps, obj, label, key):
    import c02

    gene = gengene.load(cfg["gene"], cfg["genome"])
    tried = 0
    bounds = [None] if obj is None or not hyps else [0, 0.5, 1.5, 3, 10, None]
    intc = [z3.IsInt(x) for x in xs.values()]
    friendly = []
    for m_, x in xs.items():
        cn = stagelib.position_cn(gene, cfg["cn"], m_.pos)
        t = totals.get(m_.pos, 0)
        friendly.append(z3.Or(x <= 0, z3.And(x >= 2,
                                             x * symx.q(cn + 0.5) >= symx.q(0.5 * t))))
    for b in bounds:
        extra = list(hyps) + ([] if b is None else [obj <= symx.q(b)])
        block = []
        # several evidence tables per bound: which table the solver happens to return
        # decides whether the real optimum shows the deviation
        for attempt in range(4):
            st, mm = eng.satisfiable(extra + block + intc + friendly, timeout_ms=30000)
            if st != "sat":
                st, mm = eng.satisfiable(extra + block + intc, timeout_ms=30000)
            if st != "sat" and not block:
                st, mm = eng.satisfiable(extra, timeout_ms=30000)
            if st != "sat":
                break
            tried += 1
            rp = c02.make_replay(cfg, xs, totals, mm)
            rp.update({"kind": "minor", "major": cfg["major"], "phase": cfg.get("phase"),
                       "added": cfg.get("added"), "company": cfg.get("company")})
            okk, msg = replay(rp)
            res["stats"]["replays"] = res["stats"].get("replays", 0) + 1
            if okk:
                res["violations"].append({
                    "what": f"{cfg['gene']}/{cfg['genome']} major={cfg['major']}: {label}: "
                            f"{msg}", "key": f"{key}:{cfg['gene']}", "replay": rp})
                return True
            block.append(z3.Or([x != mm.eval(x, model_completion=True)
                                for x in xs.values()]))
    res["inconclusive"].append(
        f"{cfg['gene']}/{cfg['genome']} major={cfg['major']}: '{label}' refuted "
        f"symbolically but {tried} concrete tables did not reproduce on the real code")
    ob(res, f"UNREPRODUCED counterexample: {label}", "inconclusive")
    return False


def replay(o):
    """Real estimate_minor + CBC on the concrete table; judged against the specification
    formula (optimum by z3.Optimize over the spec's own variables)."""
    import c02
    import aldy.minor as minor

    if o.get("kind") == "enum":
        import c05
        return c05.replay_enum(o)
    if o.get("kind") == "counts":
        import c15
        return c15.replay_counts(o)
    if o.get("kind") == "none2":
        return True, "observed on the real read-out loop with a two-point solver stub"
    gene = gengene.load(o["gene"], o["genome"])
    counts = c02.concrete_counts(gene, o)
    profile = Profile("replay")
    major = dict(o["major"])
    added = novel_variants(gene, major, o.get("added"))
    muts = considered(gene, major, added)
    sam = None
    if o.get("phase"):
        sam = FakeSam(make_phases(gene, muts, o["phase"]))
    cov = stagelib.concrete_coverage(gene, profile, counts, sam=sam)
    cn_sol = CNSolution(gene, 0, list(o["cn"]))
    msol = MajorSolution(0, {SolvedAllele(gene, a): c for a, c in major.items()},
                         cn_sol, list(added))
    seen = {}
    real = minor.solve_minor_model

    lst = [msol]
    if o.get("company"):
        other = MajorSolution(0, {SolvedAllele(gene, a): c for a, c in major.items()},
                              cn_sol, [])
        lst = [msol, other] if o["company"] == "first" else [other, msol]

    def spy(gene_, coverage, major_sol, *a, **kw):
        seen["cov"] = coverage
        r = real(gene_, coverage, major_sol, *a, **kw)
        if major_sol is msol:
            seen["sols"] = r
        return r

    minor.solve_minor_model = spy
    try:
        sols = minor.estimate_minor(gene, cov, lst, "any")
        if o.get("company"):
            sols = seen.get("sols", [])
    except Exception as e:  # noqa
        return True, f"estimate_minor raised {type(e).__name__}: {e} on {o['alt_counts']}"
    finally:
        minor.solve_minor_model = real
    probs = judge(gene, profile, list(o["cn"]), major, muts, seen["cov"], sols,
                  sam.phases if sam else None)
    return bool(probs), ("; ".join(probs[:2]) if probs else "real code agrees with the "
                         "specification") + f" [evidence {o['alt_counts']} depth {o['totals']}]"


def judge(gene, profile, cn_list, major, muts, covf, sols, phases, tol=1e-3):
    """covf: the filtered coverage the model was built from."""
    cands = minors_of(gene, major)
    copies = [(a, mi, i) for (a, mi) in cands for i in range(major[a])]
    counts = {}
    for v in muts:
        counts[v] = covf.coverage(v)
        counts[Mutation(v.pos, "_")] = covf.coverage(Mutation(v.pos, "_"))
    totals = {v.pos: stagelib.table_depth(covf, v.pos) for v in muts}
    sup = {v: counts[v] > 0 for v in muts}
    sp = spec_formula(gene, cn_list, major, profile, muts, cands, copies, counts, totals,
                      counts, sup, phases)
    opt = z3.Optimize()
    opt.set("timeout", 120000)
    for h in sp["hyp"]:
        opt.add(h)
    h_ = opt.minimize(sp["obj_lo"])
    r = opt.check()
    probs = []
    if r == z3.unknown:
        return []
    best = None
    if r == z3.sat:
        best = float(symx.model_value(opt.model(), sp["obj_lo"]))
    if best is None:
        if sols:
            probs.append(f"a solution is reported ({sols[0]._solution_nice()}) but no "
                         "admissible assignment exists")
        return probs
    if not sols:
        probs.append(f"no solution reported although an admissible assignment with "
                     f"objective {best} exists")
        return probs
    max_cn = len(cn_list)
    for s in sols:
        # decode the reported assignment into the spec's variables
        per = collections.Counter((a.major, a.minor) for a in s.solution)
        fix = []
        bad = [k for k in per if k not in sp["nn"]]
        if bad:
            probs.append(f"reported allele {bad[0]} is not a minor allele of a called "
                         "major allele")
            continue
        for k, n_ in sp["nn"].items():
            fix.append(n_ == per.get(k, 0))
        slot = collections.Counter()
        hom = False
        for a in s.solution:
            c = (a.major, a.minor, slot[a.major, a.minor])
            slot[a.major, a.minor] += 1
            for v in defn(gene, a.major, a.minor):
                fix.append(sp["keep"][c + (v,)] == (v not in a.missing))
            for v in muts:
                if c + (v,) in sp["add"]:
                    fix.append(sp["add"][c + (v,)] == (v in a.added))
            for v in a.added:
                if c + (v,) not in sp["add"]:
                    probs.append(f"{a} adds {v} which the allele cannot carry "
                                 "(no gene copy there or already defined)")
                cn = stagelib.position_cn(gene, cn_list, v.pos)
                t = totals.get(v.pos, 0)
                if cn and abs(counts.get(v, 0) * cn / max(1, t) - max_cn) < 1e-5:
                    hom = True
        sl = z3.Solver()
        sl.set("timeout", 60000)
        for h in sp["hyp"]:
            sl.add(h)
        for f in fix:
            sl.add(f)
        rr = sl.check()
        if rr == z3.unsat and not hom:
            probs.append(f"reported assignment {s._solution_nice()} violates the rules "
                         "(tie/core kept/region+reads/one per site/carried at least once)")
            continue
        if rr == z3.sat and not hom:
            val = float(symx.model_value(sl.model(), sp["obj_lo"]))
            # with phases the owner choice is free: take its best value
            o2 = z3.Optimize()
            for h in sp["hyp"] + fix:
                o2.add(h)
            o2.minimize(sp["obj_lo"])
            if o2.check() == z3.sat:
                val = float(symx.model_value(o2.model(), sp["obj_lo"]))
            if abs(val - s.score) > tol:
                probs.append(f"reported score {s.score} differs from the objective {val} "
                             f"of the reported assignment {s._solution_nice()}")
        if s.score > best + tol:
            probs.append(f"reported score {s.score} but an admissible assignment scores "
                         f"{best}")
        if s.score < best - tol:
            probs.append(f"reported score {s.score} is below the optimum {best} of the "
                         "specification (inadmissible assignment accepted)")
    return probs
