"""
C08 -- a catalogued variant denotes the same haplotype in every coordinate system.

  pos      the real Gene._init_basic / _init_regions build the coordinate maps of a gene;
           the maps are then wrapped as piecewise-linear z3 functions (SymMap, derived from
           the dictionaries the real code produced) and the real Gene._init_alleles ->
           process_mutation runs on a one-variant database whose RefSeq position is a z3
           integer (one run per variant kind and length).  z3 proves, for every position
           at once, that the loaded genome key and the genome-strand alleles spell -- base
           by base through the maps -- exactly the haplotype written in RefSeq terms
           (substitution, multi-nucleotide substitution with '.', insertion, deletion,
           deletion-insertion); that the recorded RefSeq notation is the written one
  inverse  chr_to_ref and ref_to_chr are mutually inverse (z3, all indices)
  refs     (corpus, closed data) the reference allele of every shipped substitution and
           deletion equals the genome-oriented reference; get_refseq returns the notation
           the variant was written in
  anchor   (corpus over catalogued indels of toy/GA/GB/GC) the variant handed to indel
           realignment spells the same haplotype; _reverse_op inverts the strand conversion
"""
import time
import z3

import symx
import gengene
from symx import S, SB, Engine
from vcommon import new_result, ob
from aldy.gene import Gene, Mutation
from aldy.common import rev_comp

PROPERTY = "C08"
LEVEL = "model_checking"
FUNCTIONS = ["aldy.gene.Gene._init_basic", "aldy.gene.Gene._init_regions",
             "aldy.gene.Gene._init_alleles (process_mutation)", "aldy.gene.Gene.get_refseq",
             "aldy.gene.Gene._reverse_op", "aldy.sam.Sample._realign_indels (anchoring; "
             "equivalent-indel table with the real indelpost equivalents)"]
STUBS = ["chr_to_ref / ref_to_chr / region_at replaced, after the real code built them, by "
         "piecewise-linear z3 maps with identical content", "yaml -> dict passed directly",
         "indelpost Variant/VariantAlignment, pysam.FastaFile -> recorders (anchor part)"]
OUTSIDE = ["positions whose variant range straddles an alignment gap between RefSeq and "
           "genome (I/D segments; CYP2D6 and G6PD on hg19 only): 'the same reference "
           "bases' is not defined there", "amino-acid effect inference; whether shipped "
           "alleles match dbSNP", "long-read equivalent keys (need indelpost)"]
ASSUMPTIONS = ["insertion semantics: Mutation(pos,'insX') = X inserted after genome base "
               "pos (the anchor _realign_indels uses); written 'P insX' = X inserted after "
               "RefSeq base P"]
KINDS = [("sub", 1), ("mnp", 2), ("mnp", 3), ("mnpdot", 3), ("ins", 1), ("ins", 3),
         ("del", 1), ("del", 2), ("del", 4), ("delins", 1), ("delins", 2), ("delins", 3)]


def BOUNDS(tier):
    return ["every RefSeq position (symbolic) of: toy, GA, GB, GC"
            + (", all 38 shipped genes" if tier == "thorough" else
               ", cyp2c19, cyp2d6, g6pd, dpyd") + " x {hg19, hg38}",
            "variant kinds/lengths: " + ", ".join(f"{k}{n}" for k, n in KINDS),
            "refs corpus: all variants of all shipped databases, both builds"]


def configs(tier):
    genes = ["toy", "GA", "GB", "GC", "cyp2c19", "cyp2d6", "g6pd", "dpyd"]
    if tier == "thorough":
        genes = ["toy", "GA", "GB", "GC"] + [g for g in gengene.shipped_genes()
                                            if not g.startswith("pharma")]
    c = []
    for g in genes:
        for b in ("hg19", "hg38"):
            c.append({"kind": "pos", "gene": g, "genome": b})
    ship = [g for g in gengene.shipped_genes() if not g.startswith("pharma")]
    n = 4
    for i in range(n):
        c.append({"kind": "refs", "genes": ship[i::n]})
    # generated databases with variants on the first / last mapped base and in repeats
    c.append({"kind": "refs", "genes": ["GA", "GB", "GC", "GD", "GE"]})
    c.append({"kind": "anchor"})
    # equivalent-indel table of the long-read / no-realignment path (real indelpost
    # equivalents): every entry must denote the haplotype of the catalogued indel
    c.append({"kind": "eqs", "genes": ["GE", "GA", "GB"] + (
        [g for g in ship if g not in ("cyp2d6",)][:12] + ["cyp2d6"]
        if tier == "thorough" else ["cyp2d6", "nudt15"])})
    return c


def run_config(cfg):
    return globals()["run_" + cfg["kind"]](cfg)


class SymMap(dict):
    """dict with identical content that also answers z3-integer keys."""

    def __init__(self, d):
        dict.__init__(self, d)
        self.segs = []  # (lo, hi, a, b): value = a*key + b for lo <= key <= hi
        ks = sorted(d)
        i = 0
        while i < len(ks):
            j = i
            if i + 1 < len(ks) and ks[i + 1] == ks[i] + 1 and abs(d[ks[i + 1]] - d[ks[i]]) == 1:
                a = d[ks[i + 1]] - d[ks[i]]
                while j + 1 < len(ks) and ks[j + 1] == ks[j] + 1 and d[ks[j + 1]] - d[ks[j]] == a:
                    j += 1
            else:
                a = 1
            self.segs.append((ks[i], ks[j], a, d[ks[i]] - a * ks[i]))
            i = j + 1

    def zin(self, k):
        return z3.Or([z3.And(k >= lo, k <= hi) for lo, hi, _, _ in self.segs])

    def zget(self, k):
        r = z3.IntVal(-10 ** 9)
        for lo, hi, a, b in reversed(self.segs):
            r = z3.If(z3.And(k >= lo, k <= hi), a * k + b, r)
        return r

    @staticmethod
    def key(k):
        t = k.t
        if z3.is_app(t) and t.decl().kind() == z3.Z3_OP_TO_REAL:
            return t.arg(0)
        return z3.ToInt(t)

    def __contains__(self, k):
        if isinstance(k, S):
            return bool(SB(self.zin(SymMap.key(k))))
        return dict.__contains__(self, k)

    def __getitem__(self, k):
        if isinstance(k, S):
            return S(self.zget(SymMap.key(k)))
        return dict.__getitem__(self, k)


def load_maps(gene_name, genome):
    """real _init_basic/_init_regions on the database; returns (gene, yml)."""
    import yaml
    from aldy.common import script_path

    if gene_name in ("GA", "GB", "GC"):
        yml = yaml.safe_load(gengene.gen_yaml(gene_name))
    elif gene_name == "toy":
        yml = yaml.safe_load(open(script_path("aldy.tests.resources/toy.yml")))
    else:
        yml = yaml.safe_load(open(script_path(f"aldy.resources.genes/{gene_name}.yml")))
    g = Gene.__new__(Gene)
    g.genome = genome
    g._init_basic(yml)
    g._init_regions(yml)
    return g, yml


def op_for(kind, n):
    """written (RefSeq-strand) operation with distinct letters so that order shows."""
    L = "ACGT"
    a = "".join(L[i % 4] for i in range(n))
    b = "".join(L[(i + 1) % 4] for i in range(n))
    if kind == "sub":
        return "A>C", 1
    if kind == "mnp":
        return f"{a}>{b}", n
    if kind == "mnpdot":
        return "A.G>C.T", 3
    if kind == "ins":
        return "ins" + a, 0
    if kind == "del":
        return "del" + a, n
    if kind == "delins":
        # inserted part of a different length than the deleted part
        return f"del{a}ins{'TGCA'[:(n % 3) + 1]}", n
    raise KeyError(kind)


def comp(c):
    return {"A": "T", "C": "G", "G": "C", "T": "A"}.get(c, c)


def run_pos(cfg):
    res = new_result(cfg)
    gene, yml = load_maps(cfg["gene"], cfg["genome"])
    eng = Engine(name="c08", timeout_ms=60000)
    tag = f"pos/{cfg['gene']}/{cfg['genome']}({'+' if gene.strand > 0 else '-'})"
    r2c, c2r = SymMap(gene.ref_to_chr), SymMap(gene.chr_to_ref)
    # ---- inverse maps
    i = z3.Int("i")
    t0 = time.time()
    st, mdl = eng.prove([r2c.zin(i)], z3.And(c2r.zin(r2c.zget(i)), c2r.zget(r2c.zget(i)) == i))
    st2, mdl2 = eng.prove([c2r.zin(i)], z3.And(r2c.zin(c2r.zget(i)),
                                               r2c.zget(c2r.zget(i)) == i))
    ok_inv = st == "unsat" and st2 == "unsat"
    ob(res, f"{tag}: RefSeq<->genome maps are mutually inverse (all indices)",
       "unsat" if ok_inv else ("sat" if "sat" in (st, st2) else "unknown"),
       time.time() - t0, segments=len(r2c.segs))
    if "sat" in (st, st2):
        m_ = mdl if st == "sat" else mdl2
        res["violations"].append({
            "what": f"{tag}: maps not inverse at index {m_.eval(i)}", "key": "inverse",
            "replay": {"kind": "inverse", "gene": cfg["gene"], "genome": cfg["genome"],
                       "i": int(str(m_.eval(i)))}})
    # the SymMap must reproduce the dictionaries exactly (translator validation)
    okmap = all(eng_eval(r2c.zget(z3.IntVal(k))) == v for k, v in list(gene.ref_to_chr.items())[::97])
    ob(res, f"{tag}: symbolic maps reproduce the dictionaries (sampled keys)",
       "holds" if okmap else "unknown")
    # ---- per kind: the real process_mutation on a symbolic RefSeq position
    P = z3.Int("P")
    gene.ref_to_chr, gene.chr_to_ref = r2c, c2r
    gene.region_at = lambda pos: (0, "x")
    seqlen = len(gene.seq)
    for kind, n in KINDS:
        op, L = op_for(kind, n)
        base = [P >= 1, P <= seqlen]
        one = {"alleles": {f"{gene.name}*1": {"mutations": [[S(P), op, "rsX", "effect"]]}},
               "structure": {k: v for k, v in yml["structure"].items() if k != "tandems"}}

        def run():
            gene.mutations = {}
            try:
                gene._init_alleles(one)
            except symx.PathAbort:
                raise
            except Exception as e:  # noqa  (allele bookkeeping after the conversion)
                pass
            return dict(gene.mutations)

        npaths = 0
        for dec, pc, muts in eng.explore(run, base, max_paths=200000):
            npaths += 1
            if not muts:
                # variant ignored: only legitimate when its key base is unmapped
                continue
            (gp, gop), info = next(iter(muts.items()))
            gp = SymMap.key(gp) if isinstance(gp, S) else z3.IntVal(gp)
            goal, hyp = haplotype_goal(gene, r2c, c2r, P, kind, op, L, gp, gop)
            if goal is None:
                ob(res, f"{tag}: {kind}{n}: loaded operation {gop!r} has the expected "
                        "shape", "sat")
                res["violations"].append({
                    "what": f"{tag}: written {op!r} loaded as {gop!r}", "key": f"op:{kind}",
                    "replay": {"kind": "pos", "gene": cfg["gene"], "genome": cfg["genome"],
                               "op": op, "P": 20}})
                continue
            t0 = time.time()
            st, mdl = eng.prove(hyp, goal)
            ob(res, f"{tag}: {kind}{n}: genome key + alleles spell the written haplotype "
                    "at every position", st, time.time() - t0)
            if st == "sat":
                pv = int(str(mdl.eval(P)))
                rp = {"kind": "pos", "gene": cfg["gene"], "genome": cfg["genome"],
                      "op": op, "P": pv}
                okk, msg = replay(rp)
                res["stats"]["replays"] = res["stats"].get("replays", 0) + 1
                if okk:
                    res["violations"].append({"what": f"{tag}: {msg}", "key": f"pos:{kind}",
                                              "replay": rp})
                else:
                    res["inconclusive"].append(f"{tag}: {kind}{n} at P={pv}: {msg}")
                    ob(res, f"UNREPRODUCED counterexample: {tag} {kind}{n}", "inconclusive")
            # recorded RefSeq notation
            op0 = symx.tz(info[3]) if isinstance(info[3], S) else z3.IntVal(info[3])
            st, _ = eng.prove([], z3.And(op0 + 1 == P, z3.BoolVal(info[4] == op)))
            ob(res, f"{tag}: {kind}{n}: recorded RefSeq notation is the written one", st)
            if st == "sat":
                res["violations"].append({
                    "what": f"{tag}: RefSeq notation of {op} not preserved",
                    "key": "notation", "replay": {"kind": "pos", "gene": cfg["gene"],
                                                  "genome": cfg["genome"], "op": op, "P": 20}})
    res["stats"] = {**dict(eng.stats), **res["stats"]}
    return res


def eng_eval(t):
    v = z3.simplify(t)
    return v.as_long() if z3.is_int_value(v) else None


def haplotype_goal(gene, r2c, c2r, P, kind, op, L, gp, gop):
    """
    z3 goal: the loaded (gp, gop) denotes the written (P, op).
    Written semantics (RefSeq, 1-based P):  l>r replaces bases P..P+L-1;  delX removes
    P..P+L-1;  insX inserts X after base P;  delXinsY replaces P..P+L-1 by Y.
    Loaded semantics (genome, 0-based gp): the same on the genome strand; insertion after
    genome base gp.  Orientation: genome base j is RefSeq base chr_to_ref[j], complemented
    on the '-' strand.
    """
    minus = gene.strand < 0
    hyp = []
    if kind in ("sub", "mnp", "mnpdot"):
        l, r = op.split(">")
        if ">" not in gop:
            return None, None
        gl, gr = gop.split(">")
        if len(gl) != L or len(gr) != L:
            return None, None
        goals = []
        for t in range(L):
            # genome base gp+t must be RefSeq base: P-1+t ('+')  or  P+L-2-t ('-')
            want_idx = (P - 1 + t) if not minus else (P + L - 2 - t)
            src = t if not minus else L - 1 - t
            wl, wr = (l[src], r[src]) if not minus else (comp(l[src]), comp(r[src]))
            goals.append(z3.And(c2r.zin(gp + t), c2r.zget(gp + t) == want_idx,
                                z3.BoolVal(gl[t] == wl and gr[t] == wr)))
            hyp.append(r2c.zin(P - 1 + t))
        hyp.append(contiguous(r2c, P - 1, L))
        return z3.And(goals), hyp
    if kind == "del":
        x = op[3:]
        if not gop.startswith("del") or "ins" in gop or len(gop) - 3 != L:
            return None, None
        gx = gop[3:]
        goals = []
        for t in range(L):
            want_idx = (P - 1 + t) if not minus else (P + L - 2 - t)
            src = t if not minus else L - 1 - t
            goals.append(z3.And(c2r.zin(gp + t), c2r.zget(gp + t) == want_idx,
                                z3.BoolVal(gx[t] == (x[src] if not minus else comp(x[src])))))
            hyp.append(r2c.zin(P - 1 + t))
        hyp.append(contiguous(r2c, P - 1, L))
        return z3.And(goals), hyp
    if kind == "delins":
        pd, pi = op[3:].split("ins")
        if not gop.startswith("del") or "ins" not in gop:
            return None, None
        gd, gi = gop[3:].split("ins")
        if len(gd) != L:
            return None, None
        goals = [z3.BoolVal(gi == (pi if not minus else rev_comp(pi)))]
        for t in range(L):
            want_idx = (P - 1 + t) if not minus else (P + L - 2 - t)
            src = t if not minus else L - 1 - t
            goals.append(z3.And(c2r.zin(gp + t), c2r.zget(gp + t) == want_idx,
                                z3.BoolVal(gd[t] == (pd[src] if not minus else comp(pd[src])))))
            hyp.append(r2c.zin(P - 1 + t))
        hyp.append(contiguous(r2c, P - 1, L))
        return z3.And(goals), hyp
    if kind == "ins":
        x = op[3:]
        if not gop.startswith("ins"):
            return None, None
        gx = gop[3:]
        # written: X between RefSeq bases P and P+1 (0-based P-1 and P).
        # loaded: X' after genome base gp, i.e. between genome bases gp and gp+1.
        # '+': gp <-> P-1 and gp+1 <-> P ;  '-': gp <-> P and gp+1 <-> P-1, X' = revcomp
        a, b = (P - 1, P) if not minus else (P, P - 1)
        goal = z3.And(c2r.zin(gp), c2r.zget(gp) == a, c2r.zin(gp + 1), c2r.zget(gp + 1) == b,
                      z3.BoolVal(gx == (x if not minus else rev_comp(x))))
        hyp += [r2c.zin(P - 1), r2c.zin(P), contiguous(r2c, P - 1, 2)]
        return goal, hyp
    return None, None


def contiguous(r2c, start, n):
    """RefSeq indices start..start+n-1 lie in one alignment segment."""
    return z3.Or([z3.And(start >= lo, start + n - 1 <= hi) for lo, hi, _, _ in r2c.segs])


# ------------------------------------------------------------------ concrete replay


def apply_refseq(seq, P, op):
    """written variant applied to the RefSeq sequence (list of bases with marks)."""
    if ">" in op:
        l, r = op.split(">")
        s = list(seq)
        for t, (a, b) in enumerate(zip(l, r)):
            if a != ".":
                s[P - 1 + t] = b.lower()
        return "".join(s)
    if op.startswith("ins"):
        return seq[:P] + op[3:].lower() + seq[P:]
    if "ins" in op:
        d, i = op[3:].split("ins")
        return seq[:P - 1] + i.lower() + seq[P - 1 + len(d):]
    d = op[3:]
    return seq[:P - 1] + "-" * len(d) + seq[P - 1 + len(d):]


def apply_genome(gene, gp, gop):
    """loaded variant applied to the genome-oriented reference, then oriented to RefSeq."""
    lo, hi = gene._lookup_range
    g = gene._lookup_seq
    k = gp - lo
    if ">" in gop:
        l, r = gop.split(">")
        s = list(g)
        for t, (a, b) in enumerate(zip(l, r)):
            if a != ".":
                s[k + t] = b.lower()
        g2 = "".join(s)
    elif gop.startswith("ins"):
        g2 = g[:k + 1] + gop[3:].lower() + g[k + 1:]
    elif "ins" in gop:
        d, i = gop[3:].split("ins")
        g2 = g[:k] + i.lower() + g[k + len(d):]
    else:
        d = gop[3:]
        g2 = g[:k] + "-" * len(d) + g[k + len(d):]
    if gene.strand < 0:
        cm = {"A": "T", "C": "G", "G": "C", "T": "A", "a": "t", "c": "g", "g": "c",
              "t": "a"}
        g2 = "".join(cm.get(c, c) for c in reversed(g2))
    return g2


def replay_pos(o):
    """Load a one-variant database with the real Gene() and compare the two applications
    on the actual sequence (the written reference letters are adapted to the sequence)."""
    import yaml
    from aldy.common import script_path

    name = o["gene"]
    if name in ("GA", "GB", "GC"):
        yml = yaml.safe_load(gengene.gen_yaml(name))
    elif name == "toy":
        yml = yaml.safe_load(open(script_path("aldy.tests.resources/toy.yml")))
    else:
        yml = yaml.safe_load(open(script_path(f"aldy.resources.genes/{name}.yml")))
    seq = yml["reference"]["seq"].replace("\n", "")
    P, op = o["P"], o["op"]
    yml["alleles"] = {f"{yml['name']}*1": {"mutations": []},
                      f"{yml['name']}*2": {"mutations": [[P, op, "rsX", "effect"]]}}
    yml["structure"].pop("tandems", None)
    g = Gene(None, name=yml["name"], yml=yaml.safe_dump(yml), genome=o["genome"])
    if not g.mutations:
        return False, "variant ignored (unmapped)"
    (gp, gop), info = next(iter(g.mutations.items()))
    a = apply_refseq(seq, P, op)
    b = apply_genome(g, gp, gop)
    # compare on the RefSeq-mapped part only (genome side has Ns elsewhere)
    ref_only = "".join(c for c in a)
    lo = min(g.ref_to_chr)
    hi = max(g.ref_to_chr)
    diff = norm(a[lo:hi + 1 + (len(a) - len(seq))]) != norm(b.strip("N"))
    return diff, (f"written {P}{op} loaded as {gp}:{gop}: RefSeq-applied "
                  f"...{window(a, P)}... vs genome-applied ...{window(b.strip('N'), P - lo)}...")


def norm(s):
    return s.replace("-", "")


def window(s, p):
    return s[max(0, p - 6):p + 8]


def replay_inverse(o):
    g = gengene.load(o["gene"], o["genome"])
    i = o["i"]
    bad = (i in g.ref_to_chr and g.chr_to_ref.get(g.ref_to_chr[i]) != i) or \
          (i in g.chr_to_ref and g.ref_to_chr.get(g.chr_to_ref[i]) != i)
    return bad, f"index {i}"


# ------------------------------------------------------------------ corpus parts


def _apply_indel(ref, lo, pos, op, read_level):
    """haplotype of ref (genome window starting at lo) with one indel applied. A key as
    the read parser produces it places an insertion BEFORE pos; a catalogue key AFTER the
    base at pos (C08: the same two reference bases)."""
    i = pos - lo
    if op.startswith("ins"):
        i = i if read_level else i + 1
        return ref[:i] + op[3:] + ref[i:]
    d = op[3:]
    if ref[i:i + len(d)] != d:
        return None
    return ref[:i] + ref[i + len(d):]


def eqs_problems(gname, genome):
    import tempfile
    import c06

    g = gengene.load(gname, genome)
    s = c06.new_sample(g)
    s._prefix = ""
    if not s._indel_sites:
        return [], 0

    class Sam:
        def get_reference_length(self, r):
            return g._lookup_range[1] + 50

    with tempfile.TemporaryDirectory() as tmp:
        s._realign_indels(tmp, Sam(), None, long_reads=True)
    probs = []
    for (np_, no), (pos, op) in sorted(s._indel_sites_eqs.items()):
        if "ins" in op and op.startswith("del"):
            continue
        lo = min(np_, pos) - 5
        hi = max(np_, pos) + max(len(no), len(op)) + 5
        ref = g[lo:hi]
        a = _apply_indel(ref, lo, np_, no, True)
        b = _apply_indel(ref, lo, pos, op, False)
        if a is None or b is None or a != b:
            probs.append(f"{gname}/{genome}: reads showing {np_}:{no} are counted as the "
                         f"catalogued {pos}:{op}, but the haplotypes differ ({a} vs {b} "
                         f"over {ref})")
    return probs, len(s._indel_sites_eqs)


def run_eqs(cfg):
    res = new_result(cfg)
    n = 0
    for gname in cfg["genes"]:
        for b in ("hg19", "hg38"):
            try:
                probs, k = eqs_problems(gname, b)
            except Exception as e:  # noqa
                probs, k = [f"{gname}/{b}: building the table raised "
                            f"{type(e).__name__}: {e}"], 0
            n += k
            ob(res, f"eqs {gname}/{b}: every equivalent indel of the long-read table "
                    "spells the catalogued indel's haplotype", "holds" if not probs
               else "sat", entries=k)
            for pr in probs[:2]:
                res["violations"].append({"what": pr, "key": f"eqs:{gname}",
                                          "replay": {"kind": "eqs", "gene": gname,
                                                     "genome": b}})
    seen = {}
    for v in res["violations"]:
        seen.setdefault(v["key"], v)
    res["violations"] = list(seen.values())
    res["stats"] = {"paths": n}
    return res


def replay_eqs(o):
    probs, _ = eqs_problems(o["gene"], o["genome"])
    return bool(probs), "; ".join(probs[:2])


def run_refs(cfg):
    res = new_result(cfg)
    n = bad = 0
    for gname in cfg["genes"]:
        for b in ("hg19", "hg38"):
            g = gengene.load(gname, b)
            # the two accessors of the genome-oriented reference agree, base by base, over
            # the whole mapped range and two bases beyond it
            lo, hi = min(g.chr_to_ref), max(g.chr_to_ref)
            span = list(range(lo - 2, min(hi + 3, lo + 3000))) + list(range(max(lo, hi - 3000),
                                                                            hi + 3))
            diff = [i for i in span if g[i] != g[i:i + 1] and not (g[i] == "N" and
                                                                   g[i:i + 1] == "")]
            if diff:
                bad += 1
                res["violations"].append({
                    "what": f"{gname}/{b}: gene[i] and gene[i:i+1] disagree at {diff[:3]} "
                            f"(mapped range {lo}-{hi}): {g[diff[0]]!r} vs "
                            f"{g[diff[0]:diff[0] + 1]!r}", "key": f"refs:{gname}:accessor",
                    "replay": {"kind": "none"}})
            for (pos, op), info in g.mutations.items():
                n += 1
                okk = True
                if ">" in op:
                    l, _ = op.split(">")
                    okk = all(c == "." or g[pos + i] == c for i, c in enumerate(l))
                elif op.startswith("del") and "ins" not in op:
                    okk = g[pos:pos + len(op) - 3] == op[3:]
                rs = g.get_refseq(pos, op)
                okk = okk and rs == f"{info[3] + 1}{info[4]}"
                if not okk:
                    bad += 1
                    res["violations"].append({
                        "what": f"{gname}/{b}: reference allele / notation of {pos}:{op} "
                                f"does not match the reference ({g[pos:pos + 4]})",
                        "key": f"refs:{gname}:{info[3] + 1}{info[4]}",
                        "replay": {"kind": "refs", "gene": gname, "genome": b, "pos": pos,
                                   "op": op}})
    ob(res, f"refs corpus: {n} shipped variants ({len(cfg['genes'])} genes x 2 builds): "
            "reference allele matches, notation preserved", "holds" if not bad else "sat",
       corpus=True)
    res["stats"] = {"paths": n, "corpus_variants": n}
    return res


def replay_refs(o):
    g = gengene.load(o["gene"], o["genome"])
    pos, op = o["pos"], o["op"]
    if ">" in op:
        l, _ = op.split(">")
        return not all(c == "." or g[pos + i] == c for i, c in enumerate(l)), "REF mismatch"
    return g[pos:pos + len(op) - 3] != op[3:], "REF mismatch"


def run_anchor(cfg):
    """the VCF-style variant handed to indel realignment spells the catalogued indel."""
    import aldy.sam as sam_mod
    import aldy.indelpost as ip
    from aldy.profile import Profile

    res = new_result(cfg)
    rec = []

    class V:
        def __init__(self, chrom, pos, ref, alt, fasta):
            rec.append((chrom, pos, ref, alt))

        def generate_equivalents(self):
            return []

    saved = (ip.Variant, getattr(ip, "VariantAlignment", None), sam_mod.pysam.FastaFile)
    ip.Variant = V
    sam_mod.pysam.FastaFile = lambda path: None
    n = bad = 0
    try:
        for gname in ("toy", "GA", "GB", "GC"):
            for b in ("hg19", "hg38"):
                g = gengene.load(gname, b)
                s = sam_mod.Sample.__new__(sam_mod.Sample)
                s.gene, s._prefix = g, ""
                s.profile = Profile("a")
                s.profile.indelpost = False
                s._indel_sites = {(p, o): [0, 0] for p, o in g.mutations
                                  if o[:3] in ("ins", "del")}
                s._indel_sites_eqs = {}
                del rec[:]
                order = sorted(s._indel_sites, key=lambda x: (x[0], -len(x[1])))
                s._realign_indels("/nonexistent", None, "ref.fa")
                for (pos, op), (chrom, p1, ref, alt) in zip(order, rec):
                    if op.startswith("del") and g[pos:pos + len(op.split("ins")[0]) - 3] \
                            != op.split("ins")[0][3:]:
                        continue  # precondition: the catalogued allele matches the
                        # reference (the toy database's alleles do not)
                    n += 1
                    lo = g._lookup_range[0]
                    seq = g._lookup_seq
                    k = p1 - 1 - lo
                    vcf = seq[:k] + alt.lower() + seq[k + len(ref):]
                    ref_ok = seq[k:k + len(ref)] == ref
                    mine = apply_genome_plain(g, pos, op)
                    if not ref_ok or vcf.upper() != mine.upper():
                        bad += 1
                        res["violations"].append({
                            "what": f"{gname}/{b}: indel {pos}:{op} handed to realignment "
                                    f"as {p1}:{ref}>{alt}, which is a different haplotype",
                            "key": f"anchor:{gname}:{op}", "replay": {"kind": "none"}})
                # _reverse_op inverts the strand conversion
                for (pos, op) in g.mutations:
                    if "ins" in op and op.startswith("del"):
                        continue
                    n += 1
                    if g._reverse_op(g._reverse_op(op)) != op:
                        bad += 1
                        res["violations"].append({
                            "what": f"_reverse_op not an involution on {op}",
                            "key": "reverse_op", "replay": {"kind": "none"}})
    finally:
        ip.Variant = saved[0]
        sam_mod.pysam.FastaFile = saved[2]
    ob(res, f"anchor corpus: {n} catalogued indels/ops of toy, GA, GB, GC: realignment "
            "variant spells the same haplotype; _reverse_op is an involution",
       "holds" if not bad else "sat", corpus=True)
    res["stats"] = {"paths": n}
    return res


def apply_genome_plain(g, gp, gop):
    lo = g._lookup_range[0]
    s = g._lookup_seq
    k = gp - lo
    if gop.startswith("ins"):
        return s[:k + 1] + gop[3:] + s[k + 1:]
    if "ins" in gop:
        d, i = gop[3:].split("ins")
        return s[:k] + i + s[k + len(d):]
    return s[:k] + s[k + len(gop) - 3:]


def replay_none(o):
    return True, "observed directly"


def replay(o):
    return globals()["replay_" + o["kind"]](o)
