"""
C02 -- major star-allele calls are consistent, optimal and complete.

The real estimate_major -> _filter_alleles -> solve_major_model run on symbolic evidence
(SymCoverage) with the z3-capturing backend.  Per feasible path (= support pattern) the
captured model is compared with the independent specification in stagelib:

  cand     candidate alleles / copies / novel flags are exactly those the spec allows
  csat     every feasible point gives each configuration exactly its copy count
  xor      novel <=> observed and not carried; at most one non-insertion novel per site
  obj-lb   constraints => objective >= spec fit error of the decoded combination
  obj-wit  E := residual, ABS := |E| is feasible and attains the spec fit error
  adm      every admissible combination (symbolic copy counts) has a feasible point
  planted  noise-free evidence from symbolic planted copy counts: planted point feasible
           with objective 0, objective >= 0, objective 0 => planted variant multiplicities

Counterexamples are concretised to integer read tables and replayed through the real
estimate_major with CBC, judged by exhaustive enumeration (stagelib.judge_major).
"""

import time
import collections
import z3

import symx
import gengene
import stagelib
import vcommon
from symx import S, Engine
from vcommon import new_result, ob
from aldy.gene import Mutation
from aldy.profile import Profile
from aldy.solutions import CNSolution

PROPERTY = "C02"
LEVEL = "model_checking"
FUNCTIONS = [
    "aldy.lpinterface.Gurobi.solutions (enumerator contract, shared with C05)",
    "aldy.coverage.Coverage.{coverage,total}",
    "aldy.major.estimate_major", "aldy.major._filter_alleles",
    "aldy.major.solve_major_model", "aldy.major._print_candidates",
    "aldy.coverage.Coverage.{single_copy,percentage,__getitem__,dump}",
    "aldy.solutions.CNSolution.{__init__,position_cn}",
    "aldy.gene.Gene.{has_coverage,is_functional,region_at}",
    "aldy.lpinterface.Gurobi.{abssum,solutions}",
]
STUBS = [
    "lpinterface.model -> z3-capturing backend (capture mode: solutions() yields nothing)",
    "observation lists have symbolic lengths (the real Coverage.coverage/total run on them with len/sum/float shadows); Coverage.filtered -> identity "
    "(the filters themselves are C15)",
]
OUTSIDE = [
    "CBC (its answers are checked per instance in C05)",
    "genes other than those listed in bounds; support patterns other than the listed "
    "ones for shipped genes",
    "read-out loop major.py:201-235: decided on arbitrary feasible points for toy/GA/GB "
    "(mode 'readout'); elsewhere by replays and the C05 tee",
]
ASSUMPTIONS = [
    "candidates handed to solve_major_model come from _filter_alleles (public entry "
    "estimate_major); solve_major_model called directly with an allele whose core "
    "variant has no support raises KeyError and is outside the claim",
    "a novel variant does not reduce the called reference copies at its site "
    "(the documented model; the property text does not decide this)",
]
D = 10  # per-copy depth used for the concrete depth profile (the model sees ratios only)


def BOUNDS(tier):
    b = [
        "evidence: real-valued alt counts x_m in [0, T_pos], sum of non-insertion alts "
        "at a site <= T_pos, reference count = T_pos - sum; T_pos = 10*cn(pos) concrete "
        "(the model only sees x_m*cn/T_pos, so every ratio vector is covered)",
        "toy, GA, GB, GC (both builds): all support patterns of all core variants; "
        "structures of 1-3 configurations incl. fusions and the deletion allele",
        "planted part: symbolic integer copy counts of every candidate allele summing to "
        "the structure's counts",
    ]
    if tier == "thorough":
        b.append("all 38 shipped genes (hg19+hg38): six support sets each (= core variants "
                 "of 1-3 catalogued alleles, <= 7 variants), counts symbolic; structures "
                 "2x*1, 3x*1, and fusion/deletion structures for CYP2D6/CYP2A6; 4-copy "
                 "structures for toy and GA")
    return b


def configs(tier):
    c = []
    toy_structs = [["1", "1"], ["1"], ["1", "6"], ["1", "4"], ["1", "5"], ["1", "1", "1"],
                   ["4", "4"], ["1", "1", "4"], ["1", "5", "5"]]
    ga_structs = [["1", "1"], ["1", "5"], ["1", "6"], ["1", "1", "1"], ["5", "5"],
                  ["1", "7"], ["1", "1", "6"]]
    gb_structs = [["1", "1"], ["1"], ["1", "1", "1"]]
    gc_structs = [["1", "1"], ["1", "4"], ["1", "5"], ["4", "4"]]
    quick_toy = toy_structs[:6]
    for genome in ("hg19", "hg38"):
        for st in (toy_structs if tier == "thorough" else quick_toy):
            for mode in ("noise", "planted"):
                c.append({"gene": "toy", "genome": genome, "cn": st, "mode": mode})
        for st in (ga_structs if tier == "thorough" else ga_structs[:4]):
            for mode in ("noise", "planted"):
                c.append({"gene": "GA", "genome": genome, "cn": st, "mode": mode})
        for st in (gb_structs if tier == "thorough" else gb_structs[:2]):
            for mode in ("noise", "planted"):
                c.append({"gene": "GB", "genome": genome, "cn": st, "mode": mode})
        for st in (gc_structs if tier == "thorough" else gc_structs[:2]):
            for mode in ("noise", "planted"):
                c.append({"gene": "GC", "genome": genome, "cn": st, "mode": mode})
        # GD: variants on region boundaries, a deletion-insertion, structures breaking there
        for st in ([["1", "1"], ["1", "5"], ["1", "6"], ["1", "7"]] if tier == "thorough"
                   else [["1", "1"], ["1", "5"]]):
            for mode in ("noise", "planted"):
                c.append({"gene": "GD", "genome": genome, "cn": st, "mode": mode})
    for g, st in (("toy", ["1", "1"]), ("GA", ["1", "1"]), ("GB", ["1", "1"]),
                  ("toy", ["1", "4"])) + ((("GA", ["1", "5"]), ("toy", ["1", "1", "1"]))
                                          if tier == "thorough" else ()):
        for genome in ("hg19", "hg38"):
            c.append({"gene": g, "genome": genome, "cn": st, "mode": "readout"})
    # de-duplication across two enumerated points (three copies: same allele set with
    # different multiplicities)
    for genome in ("hg19", "hg38") if tier == "thorough" else ("hg19",):
        c.append({"gene": "GC", "genome": genome, "cn": ["1", "1", "1"], "mode": "readout2"})
    small = ["cyp2c19", "cyp2c9", "cyp3a5", "tpmt", "nudt15", "slco1b1"]
    if tier == "quick":
        for g in small[:2]:
            c.append({"gene": g, "genome": "hg19", "cn": ["1", "1"], "mode": "noise",
                      "support": 0})
    else:
        # every shipped database, both builds, six support sets; structures with three
        # copies and (where the gene has them) a fusion / the deletion allele
        for g in [x for x in gengene.shipped_genes() if not x.startswith("pharma")]:
            for genome in ("hg19", "hg38"):
                for k in range(6):
                    c.append({"gene": g, "genome": genome, "cn": ["1", "1"],
                              "mode": "noise", "support": k})
                c.append({"gene": g, "genome": genome, "cn": ["1", "1", "1"],
                          "mode": "noise", "support": 1})
        for g, extra in (("cyp2d6", ["1", "68"]), ("cyp2d6", ["1", "13"]),
                         ("cyp2d6", ["1", "5"]), ("cyp2a6", ["1", "4"])):
            for genome in ("hg19", "hg38"):
                for k in range(3):
                    c.append({"gene": g, "genome": genome, "cn": extra, "mode": "noise",
                              "support": k})
        # shipped genes with <= 7 core variants: every support pattern, noisy and planted
        for g in ("abcg2", "cyp2r1", "cacna1s", "cyp3a7", "ifnl3", "cyp3a43", "cyp4f2",
                  "gstp1", "cyp2s1", "cyp2w1", "comt", "ugt1a1", "cyp2f1"):
            for genome in ("hg19", "hg38"):
                for mode in ("noise", "planted"):
                    c.append({"gene": g, "genome": genome, "cn": ["1", "1"], "mode": mode})
        for genome in ("hg19", "hg38"):
            for st in (["1", "1", "1", "1"], ["1", "1", "4", "5"]):
                c.append({"gene": "toy", "genome": genome, "cn": st, "mode": "noise"})
            c.append({"gene": "GA", "genome": genome, "cn": ["1", "1", "5", "6"],
                      "mode": "noise"})
    # which alleles are candidates at all: the two-step read filter of the major stage on
    # structures where the copy number differs along the gene (shared with C15)
    for g, st in (("toy", ["1", "4"]), ("toy", ["1", "6"]), ("GA", ["1", "5"])):
        c.append({"kind": "major", "gene": g, "genome": "hg19", "cn": st})
    # the clauses "first reported is optimal / all reported lie within the gap / complete"
    # rest on the solution enumerator: its contract on an uninterpreted model family
    # (shared with C05)
    for gap in ("0", "0.1", "sym"):
        c.append({"kind": "enum", "n": 2, "gap": gap, "limit": None})
    return c


# ------------------------------------------------------------------ evidence


def build_evidence(gene, cn_list, cfg):
    """returns (counts {Mutation: S}, totals {pos: num}, base assumptions, xs, planted)"""
    core = stagelib.core_variants(gene)
    if "support" in cfg:
        # shipped genes: fixed support = core variants of a few alleles (deterministic pick)
        names = sorted(a for a, al in gene.alleles.items()
                       if al.cn_config in cn_list and al.func_muts)
        k = cfg["support"]
        chosen = names[k::max(1, len(names) // 3)][:3]
        # keep the exploration bounded: at most 7 supported core variants
        while len({m for a in chosen for m in gene.alleles[a].func_muts}) > 7 and \
                len(chosen) > 1:
            chosen = chosen[:-1]
        sup = sorted({m for a in chosen for m in gene.alleles[a].func_muts})
        core_used = sup
        fixed_positive = True
    else:
        core_used = core
        fixed_positive = False
    base = []
    counts, totals = {}, {}
    xs = {}
    planted = None
    poscn = {m.pos: stagelib.position_cn(gene, cn_list, m.pos) for m in core_used}
    for pos, cn in poscn.items():
        totals[pos] = D * cn
    if cfg["mode"] == "planted":
        planted = {}
        per_cfg = collections.defaultdict(list)
        for an, a in gene.alleles.items():
            if a.cn_config in cn_list:
                p = z3.Int(f"p_{an}")
                planted[an] = p
                base += [p >= 0]
                per_cfg[a.cn_config].append(p)
        for c_, cnt in collections.Counter(cn_list).items():
            base.append(z3.Sum(per_cfg[c_]) == cnt if per_cfg[c_] else z3.BoolVal(cnt == 0))
        for m in core_used:
            t = z3.Sum([planted[a] for a in planted if m in gene.alleles[a].func_muts]
                       or [z3.IntVal(0)])
            xs[m] = z3.ToReal(D * t)
    else:
        for m in core_used:
            x = z3.Real(f"x_{m.pos}_{m.op}")
            xs[m] = x
            base += [x >= 0, x <= totals[m.pos]]
            if fixed_positive:
                base += [x > 0]
    bypos = collections.defaultdict(list)
    for m in core_used:
        counts[m] = S(xs[m])
        if not stagelib.is_ins(m):
            bypos[m.pos].append(xs[m])
    for pos in poscn:
        alts = bypos.get(pos, [])
        ref = totals[pos] - (z3.Sum(alts) if alts else 0)
        if alts and cfg["mode"] != "planted":
            base.append(z3.Sum(alts) <= totals[pos])
        counts[Mutation(pos, "_")] = S(ref)
    return counts, totals, base, xs, planted, core_used


def run_config(cfg):
    if cfg.get("kind") == "enum":
        import c05
        return c05.run_enum(cfg)
    if cfg.get("kind") == "major":
        import c15
        return c15.run_major(cfg)
    if cfg["mode"] == "readout":
        return run_readout(cfg)
    if cfg["mode"] == "readout2":
        return run_readout2(cfg)
    res = new_result(cfg)
    gene = gengene.load(cfg["gene"], cfg["genome"])
    cn_list = list(cfg["cn"])
    profile = Profile("verif")
    counts, totals, base, xs, planted, core_used = build_evidence(gene, cn_list, cfg)
    cov = stagelib.SymCoverage(gene, profile, counts, totals)
    cn_sol = CNSolution(gene, 0, cn_list)
    eng = Engine(name="c02", timeout_ms=120000)
    import aldy.major as major
    import aldy.common

    def run():
        aldy.common.json.clear()
        with symx.install() as inst:
            r = major.estimate_major(gene, cov, cn_sol, "z3")
            return inst.models[-1] if inst.models else None, r

    npaths = 0
    for dec, pc, (m, r) in eng.explore(run, base, max_paths=5000):
        npaths += 1
        check_path(eng, res, cfg, gene, cn_list, profile, counts, totals, xs, planted,
                   core_used, m, npaths)
    res["stats"] = {**dict(eng.stats), **res["stats"]}
    return res


def run_readout(cfg):
    """
    The enumeration read-out / de-duplication loop (major.py:201-235) on an arbitrary
    feasible point of the model: solve() is a stub whose variable values are symbolic, so
    the real loop forks on every binary it reads; the MajorSolution it builds must be the
    decoded point (alleles with multiplicity, novel variants) with the solver's objective.
    """
    import aldy.major as major
    import aldy.common

    res = new_result(cfg)
    gene = gengene.load(cfg["gene"], cfg["genome"])
    cn_list = list(cfg["cn"])
    profile = Profile("verif")
    counts, totals, base, xs, planted, core_used = build_evidence(
        gene, cn_list, {**cfg, "mode": "noise"})
    cov = stagelib.SymCoverage(gene, profile, counts, totals)
    cn_sol = CNSolution(gene, 0, cn_list)
    eng = Engine(name="c02r", timeout_ms=120000)
    tag = f"readout/{cfg['gene']}/{cfg['genome']}/{','.join(cn_list)}"
    state = {}

    def run():
        aldy.common.json.clear()
        with symx.install(oracle=symx.PointOracle(eng)) as inst:
            r = major.estimate_major(gene, cov, cn_sol, "z3")
            state["m"] = inst.models[-1] if inst.models else None
            return r

    n = 0
    done = set()
    for dec, pc, sols in eng.explore(run, base, max_paths=50000):
        m = state["m"]
        if m is None or not m.vars:
            continue
        st, mdl = eng.satisfiable([])
        if st != "sat":
            ob(res, f"{tag}: path model", "unknown")
            continue
        if not sols:
            # infeasible for this support pattern: the stub reported no point
            continue
        n += 1
        val = {v.raw: bool(symx.model_value(mdl, v.zv)) for v in m.vars if v.kind == "B"}
        want_alleles = sorted(v[2:].rsplit("_", 1)[0] for v, b in val.items()
                              if b and v.startswith("A_"))
        want_novel = sorted(str(x) for x in core_used if val.get(f"N_{x}"))
        good = len(sols) == 1
        if good:
            s = sols[0]
            got_alleles = sorted(a.major for a, c in s.solution.items() for _ in range(c))
            got_novel = sorted(str(x) for x in s.added)
            good = (got_alleles == want_alleles and got_novel == want_novel
                    and s.cn_solution is cn_sol and isinstance(s.score, S)
                    and z3.eq(z3.simplify(s.score.t), z3.simplify(m.obj_z3())))
        ob(res, f"{tag}: read-out builds exactly the decoded point (alleles with "
                "multiplicity, novel variants, objective, structure)",
           "holds" if good else "sat")
        if not good and "readout" not in done:
            # find evidence for which this very point is cheap, so that the real code
            # reports it, and let the enumeration judge decide on the real output
            fix = [(v.zv if val[v.raw] else z3.Not(v.zv)) for v in m.vars if v.kind == "B"]
            named = [c.z3() for c in m.constrs if c.name and c.name[0] is not None]
            if violation(eng, res, cfg, gene, cn_list, xs, totals,
                         named + fix,  # (the exclusion cut added after the yield is unnamed)
                         f"read-out of point alleles={want_alleles} novel={want_novel} "
                         f"gives {[x._solution_nice() for x in sols]}", "readout",
                         obj=m.obj_z3(),
                         floor=(profile.major_novel + 0.1 * len(want_novel)
                                if want_novel else 0.0)):
                done.add("readout")
    seen = {}
    for v in res["violations"]:
        seen.setdefault(v["key"], v)
    res["violations"] = list(seen.values())
    res["stats"] = {**dict(eng.stats), "readout_points": n}
    res["obligations"] = [{"label": o["label"], "status": o["status"], "secs": 0}
                          for o in res["obligations"]]
    return res


def run_readout2(cfg):
    """
    De-duplication across enumerated solutions: the solver stub yields TWO arbitrary
    feasible points (the second one of the model including the exclusion cut); the real
    loop must return exactly the distinct decoded points (alleles with multiplicity, novel
    variants), each once, in the order they were yielded.
    """
    import aldy.major as major
    import aldy.common

    res = new_result(cfg)
    gene = gengene.load(cfg["gene"], cfg["genome"])
    cn_list = list(cfg["cn"])
    profile = Profile("verif")
    counts, totals, base, xs, planted, core_used = build_evidence(
        gene, cn_list, {**cfg, "mode": "noise"})
    cov = stagelib.SymCoverage(gene, profile, counts, totals)
    cn_sol = CNSolution(gene, 0, cn_list)
    eng = Engine(name="c02r2", timeout_ms=120000)
    tag = f"readout2/{cfg['gene']}/{cfg['genome']}/{','.join(cn_list)}"
    state = {}

    def run():
        aldy.common.json.clear()
        ys = []
        state["ys"] = ys
        oracle = symx.PointOracle(eng, points=2)
        state["oracle"] = oracle
        with symx.install(oracle=oracle) as inst:
            orig = inst.cls.solutions

            def recording(self, *a, **k):
                if len(a) > 1 or k:  # the generator's own recursive call
                    yield from orig(self, *a, **k)
                    return
                for y in orig(self, *a, **k):
                    ys.append(y)
                    yield y

            inst.cls.solutions = recording
            r = major.estimate_major(gene, cov, cn_sol, "z3")
            state["m"] = inst.models[-1] if inst.models else None
            return r

    def decode(names):
        raw = [state["m"].byname[n][0].raw for n in names]
        al = sorted(n[2:].rsplit("_", 1)[0] for n in raw if n.startswith("A_"))
        nv = sorted(n[2:] for n in raw if n.startswith("N_"))
        return tuple(al), tuple(nv)

    n = 0
    done = set()
    for dec, pc, sols in eng.explore(run, base, max_paths=50000):
        m = state["m"]
        if m is None or not m.vars or not state["ys"]:
            continue
        n += 1
        want = []
        for y in state["ys"]:
            d = decode(y[2])
            if d not in want:
                want.append(d)
        got = [(tuple(sorted(a.major for a, c in s_.solution.items() for _ in range(c))),
                tuple(sorted(str(x) for x in s_.added))) for s_ in sols]
        good = got == want
        ob(res, f"{tag}: the enumerated points are returned once each (distinct allele "
                "multisets / novel sets stay distinct, repeated ones are merged)",
           "holds" if good else "sat")
        if not good and "dedup" not in done and len(state["ys"]) == 2:
            orc = state["oracle"]
            st, mdl = eng.satisfiable([])
            if st != "sat":
                continue
            fix = []
            for v in m.vars:
                if v.kind == "B":
                    for t in (v.zv, orc.at(m, v.zv, 2)):
                        fix.append(t if z3.is_true(mdl.eval(t, model_completion=True))
                                   else z3.Not(t))
            named = [c.z3() for c in m.constrs if c.name and c.name[0] is not None]
            o1, o2 = m.obj_z3(), orc.at(m, m.obj_z3(), 2)
            if violation(eng, res, cfg, gene, cn_list, xs, totals,
                         named + [orc.at(m, c, 2) for c in named] + fix + [o1 == o2],
                         f"two enumerated points {want} are returned as {got}", "dedup",
                         obj=o1):
                done.add("dedup")
    seen = {}
    for v in res["violations"]:
        seen.setdefault(v["key"], v)
    res["violations"] = list(seen.values())
    res["stats"] = {**dict(eng.stats), "readout_points": n}
    res["obligations"] = [{"label": o["label"], "status": o["status"], "secs": 0}
                          for o in res["obligations"]]
    return res


def entails(eng, goal):
    st, _ = eng.prove([], goal)
    return st == "unsat"


def check_path(eng, res, cfg, gene, cn_list, profile, counts, totals, xs, planted,
               core_used, m, pidx):
    tag = f"{cfg['gene']}/{cfg['genome']}/{','.join(cn_list)}/{cfg['mode']}"
    cnt = collections.Counter(cn_list)
    # --- spec side: observed set and candidates on this path
    F = [v for v in core_used if entails(eng, xs[v] > 0)]
    Z = [v for v in core_used if entails(eng, xs[v] <= 0)]
    if len(F) + len(Z) != len(core_used):
        ob(res, f"{tag}: support pattern decided on every path", "unknown")
        return
    cands = stagelib.major_candidates(gene, cn_list, set(F))
    have_all_cfg = all(any(gene.alleles[a].cn_config == c for a in cands) for c in cnt)
    if m is None or not m.vars:
        good = not have_all_cfg
        ob(res, f"{tag}: no model only when some configuration has no candidate",
           "holds" if good else "sat")
        if not good:
            violation(eng, res, cfg, gene, cn_list, xs, totals, [], "no model built "
                      "although every configuration has a candidate", "nomodel")
        return
    if not have_all_cfg:
        ob(res, f"{tag}: model built although a configuration has no candidate", "sat")
        violation(eng, res, cfg, gene, cn_list, xs, totals, [], "model built without "
                  "candidates", "nomodel2")
        return
    cons = m.z3_constraints()
    VA = {}
    for a in cands:
        for i in range(cnt[gene.alleles[a].cn_config]):
            raw = f"A_{a}_{i}"
            if raw in m.byraw:
                VA[a, i] = m.byraw[raw]
    model_A = {v.raw for v in m.vars if v.raw.startswith("A_")}
    want_A = {f"A_{a}_{i}" for a in cands for i in range(cnt[gene.alleles[a].cn_config])}
    VN = {v_: m.byraw.get(f"N_{v_}") for v_ in F}
    model_N = {v.raw for v in m.vars if v.raw.startswith("N_")}
    okc = model_A == want_A and model_N == {f"N_{v_}" for v_ in F}
    ob(res, f"{tag}: allele-copy selectors = candidates x copies, novel flags = observed "
            "core variants", "holds" if okc else "sat", path=pidx)
    if not okc:
        violation(eng, res, cfg, gene, cn_list, xs, totals, [],
                  f"selectors {sorted(model_A ^ want_A)} / novel flags "
                  f"{sorted(model_N ^ {f'N_{v_}' for v_ in F})} differ from the "
                  "candidates/observed variants", "cand")
        return
    n = {a: z3.Sum([VA[a, i].num() for i in range(cnt[gene.alleles[a].cn_config])])
         for a in cands}
    nov = {v_: VN[v_].num() for v_ in F}
    carried = {v_: z3.Or([VA[a, i].zv for (a, i) in VA if v_ in gene.alleles[a].func_muts]
                         or [z3.BoolVal(False)]) for v_ in F}

    def prove(label, goal, key, hyps=None):
        t0 = time.time()
        st, mdl = eng.prove(cons if hyps is None else hyps, goal)
        ob(res, f"{tag}: {label}", st, time.time() - t0, path=pidx)
        if st == "sat":
            violation(eng, res, cfg, gene, cn_list, xs, totals,
                      (cons if hyps is None else hyps) + [z3.Not(goal)], label, key,
                      mdl=mdl, obj=m.obj_z3())
        return st

    # 1. CSAT
    prove("csat: each configuration gets exactly its copy count",
          z3.And([z3.Sum([n[a] for a in cands if gene.alleles[a].cn_config == c]
                         or [z3.RealVal(0)]) == k for c, k in cnt.items()]), "csat")
    # 2. carried XOR novel, one novel per site
    g = [VN[v_].zv == z3.Not(carried[v_]) for v_ in F]
    for pos in {v_.pos for v_ in F}:
        g.append(z3.Sum([nov[v_] for v_ in F if v_.pos == pos and not stagelib.is_ins(v_)]
                        or [z3.RealVal(0)]) <= 1)
    prove("xor: novel <=> observed and not carried; <=1 non-insertion novel per site",
          z3.And(g or [z3.BoolVal(True)]), "xor")
    # 3. objective exactness
    depth = lambda mm: totals.get(mm.pos, 0)  # noqa
    terms = stagelib.major_spec_error(gene, cn_list, F, counts, depth, n, nov,
                                      profile.major_novel)
    zabs = lambda t: z3.If(symx.tz(t) >= 0, symx.tz(t), -symx.tz(t))  # noqa
    anynov = z3.Or([VN[v_].zv for v_ in F] or [z3.BoolVal(False)])
    spec = (z3.Sum([zabs(t) for _, t in terms] or [z3.RealVal(0)])
            + z3.If(anynov, symx.q(profile.major_novel), z3.RealVal(0))
            + symx.q(0.1) * z3.Sum([nov[v_] for v_ in F] or [z3.RealVal(0)]))
    obj = m.obj_z3()
    prove("obj-lb: objective >= spec fit error of the decoded combination",
          obj >= spec, "obj")
    # witness: continuous variables at their spec values
    subs = witness_subst(m, terms)
    if subs is None:
        ob(res, f"{tag}: obj-wit: error variables identified", "sat", path=pidx)
    else:
        binc = [c.z3() for c in m.constrs if all(v.kind == "B" for v in c.vars())]
        allc = z3.substitute(z3.And(cons + [obj == spec]), *subs)
        prove("obj-wit: E=residual, ABS=|E| feasible and attains the spec fit error",
              allc, "obj", hyps=binc)
    # 4. admissible => feasible
    nn = {a: z3.Int(f"n_{a}") for a in cands}
    hyp = [z3.And(nn[a] >= 0, nn[a] <= cnt[gene.alleles[a].cn_config]) for a in cands]
    for c, k in cnt.items():
        hyp.append(z3.Sum([nn[a] for a in cands if gene.alleles[a].cn_config == c]) == k)
    car2 = {v_: z3.Or([nn[a] > 0 for a in cands if v_ in gene.alleles[a].func_muts]
                      or [z3.BoolVal(False)]) for v_ in F}
    nov2 = {v_: z3.If(car2[v_], z3.RealVal(0), z3.RealVal(1)) for v_ in F}
    for pos in {v_.pos for v_ in F}:
        hyp.append(z3.Sum([nov2[v_] for v_ in F
                           if v_.pos == pos and not stagelib.is_ins(v_)]
                          or [z3.RealVal(0)]) <= 1)
    nreal = {a: z3.ToReal(nn[a]) for a in cands}
    terms2 = stagelib.major_spec_error(gene, cn_list, F, counts, depth, nreal, nov2,
                                       profile.major_novel)
    sub2 = encoding_subst(m, gene, cands, cnt, nn, F, car2, terms2)
    if sub2 is None:
        ob(res, f"{tag}: adm: all model variables have a spec meaning", "sat", path=pidx)
        violation(eng, res, cfg, gene, cn_list, xs, totals, [], "model has variables "
                  "the specification cannot interpret", "adm")
    else:
        prove("adm: every admissible combination has a feasible point",
              z3.substitute(z3.And(cons), *sub2), "adm", hyps=hyp)
    # vacuity twin
    st, _ = eng.satisfiable(cons)
    ob(res, f"{tag}: reachability twin (model feasible for some evidence)",
       "confirmed" if st == "sat" else ("sat" if st == "unsat" else "unknown"), path=pidx)
    if st == "unsat":
        violation(eng, res, cfg, gene, cn_list, xs, totals, [], "model infeasible for "
                  "all evidence of this support pattern although candidates exist",
                  "infeasible")
    # 5. planted
    if planted is not None:
        noncand = [planted[a] == 0 for a in planted if a not in cands]
        prove("planted: alleles with planted copies are candidates",
              z3.And(noncand or [z3.BoolVal(True)]), "planted", hyps=[])
        pn = {a: planted[a] for a in cands}
        car3 = {v_: z3.Or([pn[a] > 0 for a in cands if v_ in gene.alleles[a].func_muts]
                          or [z3.BoolVal(False)]) for v_ in F}
        nov3 = {v_: z3.If(car3[v_], z3.RealVal(0), z3.RealVal(1)) for v_ in F}
        preal = {a: z3.ToReal(pn[a]) for a in cands}
        terms3 = stagelib.major_spec_error(gene, cn_list, F, counts, depth, preal, nov3,
                                           profile.major_novel)
        sub3 = encoding_subst(m, gene, cands, cnt, pn, F, car3, terms3)
        if sub3 is not None:
            prove("planted: the planted combination is feasible with objective 0",
                  z3.substitute(z3.And(cons + [obj == 0]), *sub3), "planted", hyps=[])
        prove("planted: objective >= 0", obj >= 0, "planted")
        mult = [z3.Sum([n[a] for a in cands if v_ in gene.alleles[a].func_muts]
                       or [z3.RealVal(0)])
                == z3.Sum([preal[a] for a in cands if v_ in gene.alleles[a].func_muts]
                          or [z3.RealVal(0)]) for v_ in core_used]
        prove("planted: objective 0 => called variant multiplicities = planted, no novel",
              z3.And(mult + [z3.Not(anynov)]), "planted", hyps=cons + [obj == 0])
    if len(res["samples"]) < 2:
        res["samples"].append({
            "config": tag, "support": [str(v_) for v_ in F], "candidates": cands,
            "model_vars": len(m.vars), "model_constraints": len(m.constrs)})


def witness_subst(m, terms):
    """E_<pos>_<op> := residual ; ABS_* := |E| ; returns substitution list or None."""
    subs = []
    tmap = {}
    for mm, t in terms:
        raw = f"E_{mm.pos}_REF" if mm.op == "_" else f"E_{mm.pos}_{mm.op}"
        tmap[raw] = symx.tz(t)
    for v in m.vars:
        if v.kind == "B":
            continue
        if v.raw in tmap:
            subs.append((v.zv, tmap[v.raw]))
        elif v.raw.startswith("ABS_"):
            src = [w for w in m.vars if w.name == v.raw[4:]]
            if len(src) != 1 or src[0].raw not in tmap:
                return None
            t = tmap[src[0].raw]
            subs.append((v.zv, z3.If(t >= 0, t, -t)))
        else:
            return None
    return subs


def encoding_subst(m, gene, cands, cnt, nn, F, carried, terms):
    """ordered encoding of a combination given by copy counts nn."""
    subs = []
    tmap = {}
    for mm, t in terms:
        raw = f"E_{mm.pos}_REF" if mm.op == "_" else f"E_{mm.pos}_{mm.op}"
        tmap[raw] = symx.tz(t)
    byF = {str(v_): v_ for v_ in F}
    anynov = z3.Or([z3.Not(carried[v_]) for v_ in F] or [z3.BoolVal(False)])
    for v in m.vars:
        if v.raw.startswith("A_"):
            a, i = v.raw[2:].rsplit("_", 1)
            if a not in nn:
                return None
            subs.append((v.zv, nn[a] > int(i)))
        elif v.raw.startswith("N_") and v.raw[2:] in byF:
            subs.append((v.zv, z3.Not(carried[byF[v.raw[2:]]])))
        elif v.raw.startswith("OR_") and v.raw[3:] in byF:
            subs.append((v.zv, carried[byF[v.raw[3:]]]))
        elif v.raw.startswith("XOR_"):
            subs.append((v.zv, z3.BoolVal(True)))
        elif v.raw == "NOVEL":
            subs.append((v.zv, anynov))
        elif v.raw in tmap:
            subs.append((v.zv, tmap[v.raw]))
        elif v.raw.startswith("ABS_"):
            src = [w for w in m.vars if w.name == v.raw[4:]]
            if len(src) != 1 or src[0].raw not in tmap:
                return None
            t = tmap[src[0].raw]
            subs.append((v.zv, z3.If(t >= 0, t, -t)))
        else:
            return None
    return subs


# ------------------------------------------------------------------ counterexamples


def violation(eng, res, cfg, gene, cn_list, xs, totals, hyps, label, key, mdl=None,
              obj=None, floor=0.0):
    """Concretise evidence (integer counts), replay on the real code, record."""
    tried = 0
    bounds = [None] if obj is None or not hyps else [
        floor + b for b in (0.01, 0.3, 1, 3, 10, 30)] + [None]
    intc = [z3.IsInt(x) for x in xs.values()]
    # evidence that survives aldy's own threshold filters unchanged (tried first)
    friendly = []
    for m_, x in xs.items():
        cn = stagelib.position_cn(gene, cn_list, m_.pos)
        t = totals.get(m_.pos, 0)
        friendly.append(z3.Or(x <= 0, z3.And(x >= 2, x * symx.q(cn + 0.5) >= symx.q(0.5 * t))))
    for b in bounds:
        extra = list(hyps) + ([] if b is None else [obj <= symx.q(b)])
        st, mm = eng.satisfiable(extra + intc + friendly, timeout_ms=90000)
        if st != "sat":
            st, mm = eng.satisfiable(extra + intc, timeout_ms=90000)
        if st != "sat":
            st, mm = eng.satisfiable(extra, timeout_ms=90000)
        if st != "sat":
            continue
        tried += 1
        rp = make_replay(cfg, xs, totals, mm)
        okk, msg = replay(rp)
        res["stats"]["replays"] = res["stats"].get("replays", 0) + 1
        if okk:
            res["violations"].append({
                "what": f"{cfg['gene']}/{cfg['genome']} cn={cn_list}: {label}: {msg}",
                "key": f"{key}:{cfg['gene']}", "replay": rp})
            return True
    res["inconclusive"].append(
        f"{cfg['gene']}/{cfg['genome']} cn={cn_list}: '{label}' refuted symbolically but "
        f"{tried} concrete evidence tables did not reproduce on the real code")
    ob(res, f"UNREPRODUCED counterexample: {label}", "inconclusive")
    return False


def make_replay(cfg, xs, totals, mdl):
    import fractions
    import math

    vals = {m: symx.model_value(mdl, x) for m, x in xs.items()}
    den = 1
    for v in vals.values():
        den = den * v.denominator // math.gcd(den, v.denominator)
    if den > 1000:
        den = 1000
    counts = {}
    for m, v in vals.items():
        c = int(round(v * den))
        if v > 0 and c == 0:
            c = 1
        counts[f"{m.pos}|{m.op}"] = c
    tot = {str(p): int(t * den) for p, t in totals.items()}
    return {"kind": "major", "gene": cfg["gene"], "genome": cfg["genome"],
            "cn": cfg["cn"], "alt_counts": counts, "totals": tot}


def concrete_counts(gene, o):
    counts = {}
    alt = {}
    for k, c in o["alt_counts"].items():
        pos, op = k.split("|", 1)
        alt[Mutation(int(pos), op)] = int(c)
    bypos = collections.defaultdict(int)
    for m, c in alt.items():
        if c > 0:
            counts[m] = c
        if not stagelib.is_ins(m):
            bypos[m.pos] += c
    for p, t in o["totals"].items():
        p = int(p)
        r = int(t) - bypos.get(p, 0)
        if r > 0:
            counts[Mutation(p, "_")] = r
    return counts


def replay(o):
    """Real estimate_major + CBC on the concrete table; judged by enumeration."""
    if o.get("kind") == "enum":
        import c05
        return c05.replay_enum(o)
    if o.get("kind") == "counts":
        import c15
        return c15.replay_counts(o)
    import aldy.major as major

    gene = gengene.load(o["gene"], o["genome"])
    counts = concrete_counts(gene, o)
    msgs = []
    for gap in (0, 0.1, 0.5):
        profile = Profile("replay", gap=gap)
        cov = stagelib.concrete_coverage(gene, profile, counts)
        cn_sol = CNSolution(gene, 0, list(o["cn"]))
        try:
            sols = major.estimate_major(gene, cov, cn_sol, "any")
            # the specification speaks about the evidence after aldy's own filters
            _, covf = major._filter_alleles(gene, cov, cn_sol)
        except Exception as e:  # noqa
            return True, f"estimate_major raised {type(e).__name__}: {e} on {o['alt_counts']}"
        fcounts = {Mutation(p, op): len(v) for p, d in covf._coverage.items()
                   for op, v in d.items()}
        # depth of a locus = all observations there that are not insertions (independent
        # of Coverage.total)
        depth_of = lambda mm: float(sum(  # noqa
            n for q, n in fcounts.items()
            if q.pos == (mm.pos if hasattr(mm, "pos") else mm) and not stagelib.is_ins(q)))
        probs = stagelib.judge_major(gene, list(o["cn"]), fcounts,
                                     depth_of, profile.major_novel, gap, sols)
        if probs:
            msgs.append(f"gap={gap}: " + "; ".join(probs[:2]))
            break
    return bool(msgs), (msgs[0] if msgs else "real code agrees with the enumeration") + \
        f" [evidence {o['alt_counts']} depth {o['totals']}]"
