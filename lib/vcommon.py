"""
Shared driver pieces: result aggregation, evidence files, known findings, replays.

A check module provides
    PROPERTY, LEVEL, FUNCTIONS (encoded real functions), STUBS, BOUNDS(tier) -> str list,
    configs(tier) -> list of picklable dicts
    run_config(cfg) -> Result dict  (see new_result)
    replay(obj) -> (reproduced: bool, message)      # concrete re-run on the real code
"""

import os
import sys
import json
import time
import hashlib
import traceback
import multiprocessing

VERIF = os.path.dirname(os.path.dirname(os.path.abspath(__file__)))
# seeded-change runs redirect their output so that committed evidence is never touched
REPLAYS = os.environ.get("VERIF_REPLAYS") or os.path.join(VERIF, "replays")
EVIDENCE = os.environ.get("VERIF_EVIDENCE") or os.path.join(VERIF, "evidence")
KNOWN = os.path.join(VERIF, "known_findings.txt")

EXIT_OK, EXIT_VIOLATION, EXIT_HARNESS = 0, 1, 3


def new_result(cfg):
    return {
        "config": cfg,
        "obligations": [],  # {label, status: unsat|sat|unknown|confirmed|..., secs}
        "violations": [],  # {what, key, replay: {...}}
        "inconclusive": [],  # strings
        "stats": {},
        "samples": [],
        "error": None,
        "wall_s": 0.0,
    }


def ob(res, label, status, secs=0.0, **kw):
    d = {"label": label, "status": status, "secs": round(secs, 4)}
    d.update(kw)
    res["obligations"].append(d)
    return d


def merge_stats(dst, src):
    for k, v in src.items():
        if isinstance(v, (int, float)):
            dst[k] = dst.get(k, 0) + v


def _worker(args):
    modname, cfg = args
    import importlib

    mod = importlib.import_module(modname)
    t0 = time.time()
    try:
        res = mod.run_config(cfg)
    except BaseException as e:  # noqa
        res = new_result(cfg)
        res["error"] = "".join(traceback.format_exception(type(e), e, e.__traceback__))
    res["wall_s"] = time.time() - t0
    return res


def load_known():
    """known_findings.txt: lines 'known: property=<id> key=<key> <text>' / 'fixed: ...'."""
    known = {}
    if os.path.exists(KNOWN):
        for line in open(KNOWN):
            line = line.strip()
            if not line or line.startswith("#"):
                continue
            if line.startswith("known:"):
                parts = dict(
                    p.split("=", 1) for p in line[6:].split() if "=" in p
                )
                pid, key = parts.get("property"), parts.get("key")
                text = " ".join(w for w in line[6:].split()
                                if not w.startswith("property="))
                known.setdefault(pid, {})[key] = text
    return known


def save_replay(pid, obj):
    os.makedirs(os.path.join(REPLAYS, pid), exist_ok=True)
    blob = json.dumps(obj, sort_keys=True, default=str)
    h = hashlib.sha1(blob.encode()).hexdigest()[:12]
    path = os.path.join(REPLAYS, pid, f"{h}.json")
    with open(path, "w") as f:
        f.write(blob)
    return path


def run_check(mod, tier, seed=0, procs=None, only=None):
    """Runs all configs of a check module, writes evidence, prints the verdict lines."""
    t0 = time.time()
    pid = mod.PROPERTY
    cfgs = mod.configs(tier)
    if only:
        cfgs = [c for c in cfgs if only in json.dumps(c, default=str)]
    procs = procs or int(os.environ.get("VERIF_PROCS", "16"))
    procs = max(1, min(procs, len(cfgs)))
    modname = mod.__name__
    results = []
    if procs == 1:
        for c in cfgs:
            results.append(_worker((modname, c)))
    else:
        ctx = multiprocessing.get_context("fork")
        with ctx.Pool(procs, maxtasksperchild=1) as pool:
            for r in pool.imap_unordered(_worker, [(modname, c) for c in cfgs], 1):
                results.append(r)
    results.sort(key=lambda r: json.dumps(r["config"], sort_keys=True, default=str))

    known = load_known().get(pid, {})
    stats = {}
    n_ob = n_dis = n_unknown = n_known_ob = 0
    labels = set()
    errors, viols, known_hit, samples, inconc = [], [], {}, [], []
    notdis = []
    for r in results:
        merge_stats(stats, r["stats"])
        if r["error"]:
            errors.append({"config": r["config"], "error": r["error"][-2000:]})
        for o in r["obligations"]:
            n_ob += 1
            labels.add((json.dumps(r["config"], sort_keys=True, default=str), o["label"]))
            if o["status"] in ("unsat", "confirmed", "refuted-as-expected", "holds"):
                n_dis += 1
            elif o["status"] == "known-finding":
                n_known_ob += 1
            elif o["status"] in ("unknown", "inconclusive"):
                n_unknown += 1
                notdis.append({"config": r["config"], "label": o["label"],
                               "status": o["status"]})
            else:
                notdis.append({"config": r["config"], "label": o["label"],
                               "status": o["status"]})
        for v in r["violations"]:
            if v.get("key") in known:
                known_hit.setdefault(v["key"], v)
            else:
                viols.append(v)
        inconc += r["inconclusive"]
        for s in r["samples"][:2]:
            if len(samples) < 12:
                samples.append(s)

    for key, v in sorted(known_hit.items()):
        print(f"KNOWN-FINDING: property={pid} {known[key]}")
    seen = set()
    nviol = 0
    for v in viols:
        k = v.get("key") or v["what"]
        if k in seen:
            continue
        seen.add(k)
        nviol += 1
        path = save_replay(pid, {"property": pid, "check": modname, **v})
        print(f"VIOLATION property={pid} replay={path}")
        print(f"  what: {v['what']}")
    for e in errors[:5]:
        print(f"HARNESS-ERROR property={pid} config={e['config']}\n{e['error']}",
              file=sys.stderr)

    wall = time.time() - t0
    level = mod.LEVEL
    cov = {
        "evaluations": max(1, n_ob),
        "distinct_nontrivial": max(0, len(labels)),
        "rule": getattr(mod, "RULE", "one obligation = one solver query "
                        "(path-condition ∧ captured constraints ∧ ¬spec); distinct = "
                        "distinct (configuration, obligation label) pairs"),
        "samples": samples or [{"note": "no samples produced"}],
        "obligations": n_ob,
        "discharged": n_dis,
        "unknown_or_inconclusive": n_unknown,
        "obligations_failing_only_by_known_findings": n_known_ob,
        "inconclusive_notes": inconc[:20],
        "not_discharged": notdis[:40],
        "config_wall_s": sorted(
            ([round(r["wall_s"], 1), json.dumps(r["config"], default=str)[:120]]
             for r in results), reverse=True)[:8],
        "configurations": len(cfgs),
        "paths": int(stats.get("paths", 0)),
        "states": max(1, int(stats.get("paths", 0))),
        "transitions": max(1, int(stats.get("branch_queries", 0))),
        "traces_validated_against_impl": int(stats.get("replays", 0)),
        "solver_queries": int(stats.get("queries", 0) + stats.get("branch_queries", 0)),
        "solver_results": {k: int(stats.get(k, 0)) for k in ("unsat", "sat", "unknown")},
        "solver_s": round(stats.get("solver_s", 0.0), 2),
        "functions_encoded": getattr(mod, "FUNCTIONS", []),
        "stubs": getattr(mod, "STUBS", []),
        "bounds": mod.BOUNDS(tier) if hasattr(mod, "BOUNDS") else [],
        "outside_claim": getattr(mod, "OUTSIDE", []),
        "exhaustive": bool(n_unknown == 0 and not errors and getattr(mod, "EXHAUSTIVE", True)),
        "known_findings_hit": sorted(known_hit),
        "harness_errors": len(errors),
        "extra": {k: v for k, v in stats.items()
                  if k not in ("paths", "branch_queries", "queries", "unsat", "sat",
                               "unknown", "solver_s", "replays", "aborted")},
    }
    if level == "other":
        cov["explanation"] = getattr(mod, "EXPLANATION", "")
    ev = {
        "property_id": pid,
        "tier": tier,
        "seed": seed,
        "level": level,
        "coverage": cov,
        "assumptions": getattr(mod, "ASSUMPTIONS", []),
        "wall_s": round(wall, 2),
        "violations": nviol,
    }
    os.makedirs(EVIDENCE, exist_ok=True)
    with open(os.path.join(EVIDENCE, f"{pid}.json"), "w") as f:
        json.dump(ev, f, indent=1, default=str)
    print(
        f"[{pid}/{tier}] configs={len(cfgs)} obligations={n_ob} discharged={n_dis} "
        f"unknown={n_unknown} violations={nviol} known={len(known_hit)} "
        f"errors={len(errors)} paths={cov['paths']} solver_s={cov['solver_s']} "
        f"wall={wall:.1f}s"
    )
    if nviol:
        return EXIT_VIOLATION
    if errors:
        return EXIT_HARNESS
    if any(o["status"] == "inconclusive" for o in notdis):
        print(f"[{pid}] a symbolic counterexample could not be reproduced on the real "
              "code (no VIOLATION claimed; see evidence.not_discharged)", file=sys.stderr)
        return EXIT_HARNESS
    if n_dis == 0:
        print(f"[{pid}] nothing was discharged", file=sys.stderr)
        return EXIT_HARNESS
    return EXIT_OK
