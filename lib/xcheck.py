"""Generic driver glue for CrossHair-based checks (E2)."""
import time
import xhair
from vcommon import new_result, ob


def run_harness(cfg, module, prop_label=None):
    """cfg: {func, timeout, env?, desc}.  One CrossHair condition = one obligation."""
    res = new_result(cfg)
    r = xhair.run_one(module, cfg["func"], cfg["timeout"], env=cfg.get("env"))
    label = f"{cfg['func']}{cfg.get('env') or ''}: {cfg.get('desc', '')}"
    res["stats"] = {"queries": 1, "solver_s": r["secs"], "paths": 1}
    if r["status"] == "confirmed":
        ob(res, label, "confirmed", r["secs"], verdict="Confirmed over all paths")
        res["stats"]["unsat"] = 1
    elif r["status"] == "cex":
        res["stats"]["sat"] = 1
        if r.get("args") is None:
            ob(res, label, "inconclusive", r["secs"], why="unparsable counterexample "
               + r.get("call", ""))
            res["inconclusive"].append(f"{label}: cannot parse {r.get('call')}")
            return res
        args, kw = r["args"]
        try:
            out = xhair.replay_call(module, cfg["func"], args, kw, env=cfg.get("env"))
            reproduced = out != "ok"
        except Exception as e:  # noqa
            out = f"raised {type(e).__name__}: {e}"
            reproduced = True
        res["stats"]["replays"] = 1
        if reproduced:
            ob(res, label, "sat", r["secs"], call=r["call"])
            res["violations"].append({
                "what": f"{cfg['func']}: {out}  [input {r['call']}]",
                "key": cfg.get("key", cfg["func"]),
                "replay": {"module": module, "func": cfg["func"], "args": args, "kw": kw,
                           "env": cfg.get("env")}})
        else:
            ob(res, label, "inconclusive", r["secs"], call=r["call"])
            res["inconclusive"].append(f"{label}: counterexample {r['call']} did not "
                                       "reproduce without CrossHair")
    else:
        ob(res, label, "unknown", r["secs"], why=r.get("why", "")[:200])
        if r["status"] == "error":
            res["inconclusive"].append(f"{label}: {r.get('why')}")
    res["samples"].append({"condition": label, "status": r["status"],
                           "call": r.get("call"), "secs": r["secs"]})
    return res


def replay(o):
    out = xhair.replay_call(o["module"], o["func"], o["args"], o.get("kw"), o.get("env"))
    return out != "ok", str(out)
