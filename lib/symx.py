"""
symx -- path-forking symbolic numbers + a z3-capturing ILP backend for aldy.

E1 engine of DESIGN.md.  The *real* aldy model builders / filters / selection code are
executed with

  * evidence numbers as z3 terms (class S; booleans SB fork the path on __bool__),
  * a capturing solver backend (class Z3Model, a subclass of aldy.lpinterface.Gurobi that
    overrides exactly the solver-specific primitives CBC overrides, and therefore
    inherits the real abssum / prod / solutions),

and the function under analysis is re-executed once per feasible path (DFS over decision
prefixes).  Nothing here knows anything about star-alleles.
"""

import time
import fractions
import collections
import z3

# --------------------------------------------------------------------------- engine


class PathAbort(BaseException):
    """Raised to abandon the current path (infeasible / cut)."""


class Unknown(Exception):
    pass


_ENGINE = None


def engine():
    return _ENGINE


class Stats(dict):
    def bump(self, k, v=1):
        self[k] = self.get(k, 0) + v


class Engine:
    """DFS over decision prefixes by re-execution."""

    def __init__(self, timeout_ms=60000, name=""):
        self.name = name
        self.timeout_ms = timeout_ms
        self.stats = Stats(
            paths=0, aborted=0, branch_queries=0, queries=0, unsat=0, sat=0,
            unknown=0, solver_s=0.0,
        )
        self.solver = z3.Solver()
        self.solver.set("timeout", timeout_ms)
        self.pc = []
        self.prefix = []
        self.decisions = []
        self.work = []
        self.fresh = 0

    # -- path exploration
    def explore(self, fn, base=(), max_paths=100000):
        """Run fn() once per feasible path; yields (decisions, pc, result)."""
        global _ENGINE
        self.work = [[]]
        while self.work:
            if self.stats["paths"] >= max_paths:
                raise RuntimeError(f"path budget exceeded ({max_paths})")
            self.prefix = self.work.pop()
            self.decisions = []
            self.pc = list(base)
            self.solver.reset()
            self.solver.set("timeout", self.timeout_ms)
            for b in base:
                self.solver.add(b)
            prev, _ENGINE = _ENGINE, self
            try:
                try:
                    r = fn()
                except PathAbort:
                    self.stats.bump("aborted")
                    continue
            finally:
                _ENGINE = prev
            self.stats.bump("paths")
            yield list(self.decisions), list(self.pc), r

    def _feasible(self, cond):
        t0 = time.time()
        self.solver.push()
        self.solver.add(cond)
        r = self.solver.check()
        self.solver.pop()
        self.stats.bump("branch_queries")
        self.stats.bump("solver_s", time.time() - t0)
        if r == z3.unknown:
            self.stats.bump("unknown")
            return True  # over-approximate: explore it
        return r == z3.sat

    def assume(self, cond):
        """Add a path assumption (aborts the path if infeasible)."""
        if isinstance(cond, SB):
            cond = cond.b
        if isinstance(cond, bool):
            if not cond:
                raise PathAbort()
            return
        if not self._feasible(cond):
            raise PathAbort()
        self.pc.append(cond)
        self.solver.add(cond)

    def branch(self, cond):
        cond = z3.simplify(cond)
        if z3.is_true(cond):
            return True
        if z3.is_false(cond):
            return False
        i = len(self.decisions)
        if i < len(self.prefix):
            d = self.prefix[i]
        else:
            t = self._feasible(cond)
            f = self._feasible(z3.Not(cond))
            if t and f:
                d = True
                self.work.append(self.decisions + [False])
            elif t:
                d = True
            elif f:
                d = False
            else:
                raise PathAbort()
        self.decisions.append(d)
        c = cond if d else z3.Not(cond)
        self.pc.append(c)
        self.solver.add(c)
        return d

    def choose(self, t, domain):
        """Concretise integer-valued term t over an explicit domain (forks)."""
        for v in domain:
            if self.branch(t == v):
                return v
        raise PathAbort()

    # -- obligations
    def prove(self, hyps, goal, label="", timeout_ms=None):
        """unsat(pc ∧ hyps ∧ ¬goal)?  returns ('unsat'|'sat'|'unknown', model)."""
        s = z3.Solver()
        s.set("timeout", timeout_ms or self.timeout_ms)
        for c in self.pc:
            s.add(c)
        for h in hyps:
            s.add(h)
        s.add(z3.Not(goal))
        t0 = time.time()
        r = s.check()
        self.stats.bump("solver_s", time.time() - t0)
        self.stats.bump("queries")
        self.stats.bump(str(r))
        return str(r), (s.model() if r == z3.sat else None)

    def satisfiable(self, hyps, timeout_ms=None):
        s = z3.Solver()
        s.set("timeout", timeout_ms or self.timeout_ms)
        for c in self.pc:
            s.add(c)
        for h in hyps:
            s.add(h)
        t0 = time.time()
        r = s.check()
        self.stats.bump("solver_s", time.time() - t0)
        self.stats.bump("queries")
        self.stats.bump(str(r))
        return str(r), (s.model() if r == z3.sat else None)

    def fresh_real(self, name):
        self.fresh += 1
        return z3.Real(f"{name}!{self.fresh}")


# --------------------------------------------------------------------------- numbers


def q(x):
    """python number -> exact z3 rational."""
    if isinstance(x, bool):
        return z3.RealVal(int(x))
    if isinstance(x, int):
        return z3.RealVal(x)
    if isinstance(x, fractions.Fraction):
        return z3.Q(x.numerator, x.denominator)
    if isinstance(x, float):
        if x != x or x in (float("inf"), float("-inf")):
            raise ValueError("non-finite number in symbolic arithmetic")
        f = fractions.Fraction(repr(x))
        return z3.Q(f.numerator, f.denominator)
    raise TypeError(type(x))


def tz(x):
    """anything numeric -> z3 arithmetic term."""
    if isinstance(x, S):
        return x.t
    if isinstance(x, SB):
        return z3.If(x.b, z3.RealVal(1), z3.RealVal(0))
    if z3.is_expr(x):
        return x
    return q(x)


def is_sym(x):
    return isinstance(x, (S, SB))


class SB:
    """Symbolic boolean; bool() forks the path."""

    __slots__ = ("b",)

    def __init__(self, b):
        self.b = b

    def __bool__(self):
        e = engine()
        if e is None:
            r = z3.simplify(self.b)
            if z3.is_true(r):
                return True
            if z3.is_false(r):
                return False
            raise RuntimeError("symbolic bool outside of an engine")
        return e.branch(self.b)

    def __and__(self, o):
        return SB(z3.And(self.b, sb(o).b))

    __rand__ = __and__

    def __or__(self, o):
        return SB(z3.Or(self.b, sb(o).b))

    __ror__ = __or__

    def __invert__(self):
        return SB(z3.Not(self.b))

    def __eq__(self, o):
        if isinstance(o, (bool, SB)):
            return SB(self.b == sb(o).b)
        if isinstance(o, (int, float)):
            return SB(z3.If(self.b, 1, 0) == q(o))
        return NotImplemented

    def __ne__(self, o):
        r = self.__eq__(o)
        return r if r is NotImplemented else ~r

    def __le__(self, o):
        return S(tz(self)) <= o

    def __lt__(self, o):
        return S(tz(self)) < o

    def __ge__(self, o):
        return S(tz(self)) >= o

    def __gt__(self, o):
        return S(tz(self)) > o

    def __hash__(self):
        return id(self)

    def __repr__(self):
        return f"SB({self.b})"

    def __format__(self, spec):
        return "<sb>"


def sb(x):
    if isinstance(x, SB):
        return x
    if isinstance(x, bool):
        return SB(z3.BoolVal(x))
    if z3.is_expr(x):
        return SB(x)
    raise TypeError(type(x))


class S:
    """Symbolic real number (evidence side).  Arithmetic is exact (z3 Real)."""

    __slots__ = ("t",)

    def __init__(self, t):
        if isinstance(t, S):
            t = t.t
        elif not z3.is_expr(t):
            t = q(t)
        if z3.is_int(t):
            t = z3.ToReal(t)
        self.t = t

    # arithmetic
    def __add__(self, o):
        if isinstance(o, L):
            return o.__radd__(self)
        return S(self.t + tz(o))

    __radd__ = __add__

    def __sub__(self, o):
        if isinstance(o, L):
            return o.__rsub__(self)
        return S(self.t - tz(o))

    def __rsub__(self, o):
        return S(tz(o) - self.t)

    def __mul__(self, o):
        if isinstance(o, L):
            return o.__rmul__(self)
        return S(self.t * tz(o))

    __rmul__ = __mul__

    def __truediv__(self, o):
        if isinstance(o, S) and engine() is not None and bool(SB(o.t == 0)):
            raise ZeroDivisionError("division by zero (symbolic divisor can be 0)")
        return S(self.t / tz(o))

    def __rtruediv__(self, o):
        if engine() is not None and bool(SB(self.t == 0)):
            raise ZeroDivisionError("division by zero (symbolic divisor can be 0)")
        return S(tz(o) / self.t)

    def __neg__(self):
        return S(-self.t)

    def __pos__(self):
        return self

    def __abs__(self):
        return S(z3.If(self.t >= 0, self.t, -self.t))

    def __floor__(self):
        return S(z3.ToReal(z3.ToInt(self.t)))

    def __ceil__(self):
        return S(-z3.ToReal(z3.ToInt(-self.t)))

    def __round__(self, n=None):
        # round-half-even is not needed by aldy on symbolic values; use half-up
        return S(z3.ToReal(z3.ToInt(self.t + z3.Q(1, 2))))

    # comparisons
    def __le__(self, o):
        if isinstance(o, L):
            return o.__ge__(self)
        return SB(self.t <= tz(o))

    def __lt__(self, o):
        return SB(self.t < tz(o))

    def __ge__(self, o):
        if isinstance(o, L):
            return o.__le__(self)
        return SB(self.t >= tz(o))

    def __gt__(self, o):
        return SB(self.t > tz(o))

    def __eq__(self, o):
        if isinstance(o, L):
            return o.__eq__(self)
        if isinstance(o, (int, float, S, SB)) or z3.is_expr(o):
            return SB(self.t == tz(o))
        return NotImplemented

    def __ne__(self, o):
        r = self.__eq__(o)
        return r if r is NotImplemented else ~r

    def __hash__(self):
        return id(self)

    def __bool__(self):
        return bool(SB(self.t != 0))

    def __index__(self):
        raise TypeError("symbolic number used as an index; use engine().choose")

    def __format__(self, spec):
        return "<sym>"

    def __repr__(self):
        return f"S({z3.simplify(self.t)})"

    __str__ = __repr__


def smax(*a, **kw):
    """max() returning an If-term when any argument is symbolic (no fork)."""
    if len(a) == 1 and not kw:
        a = tuple(a[0])
    elif len(a) == 1:
        a = tuple(a[0])
    if kw.get("key") is not None or not any(is_sym(x) for x in a):
        import builtins

        return builtins.max(a, **kw) if a or "default" not in kw else kw["default"]
    r = tz(a[0])
    for x in a[1:]:
        x = tz(x)
        r = z3.If(x > r, x, r)
    return S(r)


def smin(*a, **kw):
    if len(a) == 1:
        a = tuple(a[0])
    if kw.get("key") is not None or not any(is_sym(x) for x in a):
        import builtins

        return builtins.min(a, **kw) if a or "default" not in kw else kw["default"]
    r = tz(a[0])
    for x in a[1:]:
        x = tz(x)
        r = z3.If(x < r, x, r)
    return S(r)


def sint(x, *a):
    """int() on symbolic values: truncation toward zero as a term."""
    if isinstance(x, S):
        t = x.t
        return S(z3.If(t >= 0, z3.ToReal(z3.ToInt(t)), -z3.ToReal(z3.ToInt(-t))))
    if isinstance(x, SB):
        return S(tz(x))
    return int(x, *a)


def sfloat(x):
    if isinstance(x, (S, SB)):
        return S(tz(x))
    return float(x)


def ssum(it, start=0):
    r = start
    for x in it:
        r = r + x
    return r


# --------------------------------------------------------------------------- models


class Constr:
    __slots__ = ("lhs", "sense", "name", "identical")

    def __init__(self, lhs, sense, identical=False):
        self.lhs = lhs  # L, meaning  lhs (sense) 0
        self.sense = sense
        self.name = None
        self.identical = identical

    def __bool__(self):
        if self.sense == "==":
            return self.identical
        raise TypeError("model constraint used as a python bool")

    def z3(self):
        t = self.lhs.z3()
        if self.sense == "<=":
            return t <= 0
        if self.sense == ">=":
            return t >= 0
        return t == 0

    def vars(self):
        return list(self.lhs.terms)

    def __repr__(self):
        return f"[{self.name}] {self.lhs!r} {self.sense} 0"


def _num_add(a, b):
    if is_sym(a) or is_sym(b):
        return S(tz(a) + tz(b))
    return a + b


def _num_mul(a, b):
    if is_sym(a) or is_sym(b):
        return S(tz(a) * tz(b))
    return a * b


def _num_div(a, b):
    if is_sym(a) or is_sym(b):
        return S(tz(a) / tz(b))
    return a / b


def _is_zero(a):
    return (not is_sym(a)) and a == 0


class L:
    """Linear expression over model variables; coefficients are numbers or S."""

    __slots__ = ("terms", "const")

    def __init__(self, terms=None, const=0):
        self.terms = terms if terms is not None else {}
        self.const = const

    @staticmethod
    def of(x):
        if isinstance(x, L):
            return x
        if isinstance(x, (int, float, S, SB, fractions.Fraction)):
            return L({}, S(tz(x)) if isinstance(x, SB) else x)
        raise TypeError(f"cannot use {type(x)} in a model expression")

    def copy(self):
        return L(dict(self.terms), self.const)

    def __add__(self, o):
        o = L.of(o)
        r = self.copy()
        for v, k in o.terms.items():
            if v in r.terms:
                nk = _num_add(r.terms[v], k)
                if _is_zero(nk):
                    del r.terms[v]
                else:
                    r.terms[v] = nk
            else:
                r.terms[v] = k
        r.const = _num_add(r.const, o.const)
        return r

    __radd__ = __add__

    def __neg__(self):
        return L({v: _num_mul(-1, k) for v, k in self.terms.items()},
                 _num_mul(-1, self.const))

    def __pos__(self):
        return self

    def __sub__(self, o):
        return self + (-L.of(o))

    def __rsub__(self, o):
        return L.of(o) + (-self)

    def __mul__(self, o):
        if isinstance(o, L):
            if not o.terms:
                o = o.const
            elif not self.terms:
                return o * self.const
            else:
                raise TypeError("non-linear model expression")
        if _is_zero(o):
            return L({}, 0)
        return L({v: _num_mul(k, o) for v, k in self.terms.items()},
                 _num_mul(self.const, o))

    __rmul__ = __mul__

    def __truediv__(self, o):
        if isinstance(o, L):
            if o.terms:
                raise TypeError("division by a model expression")
            o = o.const
        return L({v: _num_div(k, o) for v, k in self.terms.items()},
                 _num_div(self.const, o))

    def __le__(self, o):
        return Constr(self - o, "<=")

    def __ge__(self, o):
        return Constr(self - o, ">=")

    def __eq__(self, o):
        if not isinstance(o, (L, int, float, S, SB)):
            return NotImplemented
        return Constr(self - o, "==", identical=self is o)

    def __hash__(self):
        return id(self)

    def z3(self):
        t = tz(self.const)
        for v, k in self.terms.items():
            t = t + v.times(k)
        return t

    def value(self, env):
        """Concrete value given env: Var -> number."""
        r = self.const
        for v, k in self.terms.items():
            r = r + k * env[v]
        return r

    def __repr__(self):
        parts = [f"{k}*{v.name}" for v, k in self.terms.items()]
        return " + ".join(parts + [str(self.const)])

    def __format__(self, spec):
        return repr(self)


class Var(L):
    __slots__ = ("name", "raw", "kind", "lb", "ub", "zv", "model")

    def __init__(self, model, name, raw, kind, lb, ub):
        L.__init__(self, None, 0)
        self.terms = {self: 1}
        self.name, self.raw, self.kind, self.lb, self.ub = name, raw, kind, lb, ub
        self.model = model
        tag = f"{model.tag}:{name}"
        if kind == "B":
            self.zv = z3.Bool(tag)
        elif kind == "I":
            self.zv = z3.Int(tag)
        else:
            self.zv = z3.Real(tag)

    def __hash__(self):
        return id(self)

    def times(self, k):
        if self.kind == "B":
            return z3.If(self.zv, tz(k), z3.RealVal(0))
        if self.kind == "I":
            return z3.ToReal(self.zv) * tz(k)
        return self.zv * tz(k)

    def num(self):
        """z3 numeric term of the variable."""
        return self.times(1)

    def bounds(self):
        out = []
        if self.kind == "B":
            return out
        zv = z3.ToReal(self.zv) if self.kind == "I" else self.zv
        if self.lb is not None and self.lb != float("-inf"):
            out.append(zv >= tz(self.lb))
        if self.ub is not None and self.ub != float("inf"):
            out.append(zv <= tz(self.ub))
        return out

    def __repr__(self):
        return self.name

    __str__ = __repr__

    def __format__(self, spec):
        return self.name


def _gurobi_base():
    import aldy.lpinterface as lpi

    return lpi


_MODEL_COUNTER = [0]


def make_z3model_class():
    """Z3Model is created lazily so that it subclasses the *current* aldy source."""
    lpi = _gurobi_base()

    class Z3Model(lpi.Gurobi):
        """
        Capturing backend.  Overrides exactly the primitives CBC overrides;
        abssum / prod / solutions are the real inherited ones.
        """

        created = []

        def __init__(self, name, mode="capture"):
            _MODEL_COUNTER[0] += 1
            self.tag = f"{name}{_MODEL_COUNTER[0]}"
            self.model_name = name
            self.mode = mode
            self.INF = float("inf")
            self.names = collections.defaultdict(int)
            self.vars = []
            self.byraw = {}
            self.byname = {}
            self.constrs = []
            self.objective = None
            self.cuts = 0
            self.oracle = None
            Z3Model.created.append(self)

        # ---- primitives
        def update(self):
            pass

        def addConstr(self, *args, **kwargs):
            c = args[0]
            if not isinstance(c, Constr):
                raise TypeError(f"addConstr got {type(c)}")
            raw = kwargs.get("name")
            if "name" in kwargs:
                kwargs["name"] = lpi.escape_name(kwargs["name"], self.names)
            c.name = (raw, kwargs.get("name"))
            self.constrs.append(c)
            return c

        def addVar(self, *_, **kwargs):
            raw = kwargs.get("name", "")
            name = lpi.escape_name(raw, self.names)
            lb = kwargs.get("lb", 0)
            ub = kwargs.get("ub", self.INF)
            vt = kwargs.get("vtype")
            kind = "B" if vt == "B" else "I" if vt == "I" else "C"
            if kind == "B":
                lb, ub = 0, 1
            v = Var(self, name, raw, kind, lb, ub)
            self.vars.append(v)
            self.byraw.setdefault(raw, v)
            self.byname.setdefault(name, []).append(v)
            return v

        def setObjective(self, objective, method="min"):
            self.objective = L.of(objective)
            self.method = method

        def quicksum(self, expr):
            r = L({}, 0)
            for x in expr:
                r = r + x
            return r

        def varName(self, var):
            return var.name

        def variables(self):
            return list(self.vars)

        def is_binary(self, v):
            return v.kind == "B"

        def dump(self, file):
            pass

        def solve(self, init=None):
            if self.oracle is not None:
                return self.oracle.solve(self)
            raise lpi.NoSolutionsError("capture")

        def getValue(self, var):
            if self.oracle is not None:
                return self.oracle.value(self, var)
            raise RuntimeError("no values in capture mode")

        # ---- helpers for the harness
        def z3_constraints(self, skip=()):
            out = []
            for v in self.vars:
                out += v.bounds()
            for c in self.constrs:
                if c.name and c.name[0] is not None and any(
                    c.name[0].startswith(s) for s in skip
                ):
                    continue
                out.append(c.z3())
            return out

        def var(self, raw):
            return self.byraw[raw]

        def binaries(self):
            return [v for v in self.vars if v.kind == "B"]

        def obj_z3(self):
            return self.objective.z3()

    return Z3Model


class install:
    """Context manager: rebind aldy.lpinterface.model to a Z3Model factory."""

    def __init__(self, mode="capture", oracle=None):
        self.mode, self.oracle = mode, oracle

    def __enter__(self):
        import aldy.lpinterface as lpi

        self.lpi = lpi
        self.cls = make_z3model_class()
        self.cls.created = []
        self.saved = lpi.model
        oracle = self.oracle

        def factory(name, solver):
            m = self.cls(name)
            m.oracle = oracle
            return m

        lpi.model = factory
        return self

    def __exit__(self, *a):
        self.lpi.model = self.saved
        return False

    @property
    def models(self):
        return self.cls.created


# --------------------------------------------------------------------------- misc


def model_value(m, t, default=0):
    """Evaluate z3 term t in model m as a python Fraction/bool."""
    v = m.eval(t, model_completion=True)
    if z3.is_true(v):
        return True
    if z3.is_false(v):
        return False
    if z3.is_int_value(v):
        return fractions.Fraction(v.as_long())
    if z3.is_rational_value(v):
        return fractions.Fraction(v.numerator_as_long(), v.denominator_as_long())
    if z3.is_algebraic_value(v):
        a = v.approx(20)
        return fractions.Fraction(a.numerator_as_long(), a.denominator_as_long())
    return default


# --------------------------------------------------------------------------- strings

_SSTR_COUNTER = [0]


class SStr(str):
    """
    Bounded symbolic string (z3 String, printable ASCII, length <= L).  Subclasses str so
    that isinstance(v, str) and **{name: v} behave as for real strings; the concrete
    content of the str object is a unique placeholder and must never be interpreted.
    Comparisons return SB (forking on bool()).
    """

    def __new__(cls, z, L):
        _SSTR_COUNTER[0] += 1
        o = str.__new__(cls, f"§sym{_SSTR_COUNTER[0]}§")
        o.z = z
        o.L = L
        return o

    @staticmethod
    def var(name, L):
        return SStr(z3.String(name), L)

    def constraints(self):
        """well-formedness of a *variable*: length bound, printable ASCII."""
        c = [z3.Length(self.z) <= self.L]
        for i in range(self.L):
            ch = z3.StrToCode(z3.SubString(self.z, i, 1))
            c.append(z3.Or(z3.Length(self.z) <= i, z3.And(ch >= 32, ch <= 126)))
        return c

    @staticmethod
    def lift(x):
        if isinstance(x, SStr):
            return x.z
        if isinstance(x, str):
            return z3.StringVal(x)
        raise TypeError(type(x))

    # -- comparisons
    def __eq__(self, o):
        if isinstance(o, str):
            return SB(self.z == SStr.lift(o))
        return False

    def __ne__(self, o):
        if isinstance(o, str):
            return SB(self.z != SStr.lift(o))
        return True

    def __hash__(self):
        return id(self)

    def __contains__(self, sub):
        return bool(SB(z3.Contains(self.z, SStr.lift(sub))))

    def startswith(self, p):
        return SB(z3.PrefixOf(SStr.lift(p), self.z))

    def endswith(self, p):
        return SB(z3.SuffixOf(SStr.lift(p), self.z))

    def __bool__(self):
        return bool(SB(z3.Length(self.z) > 0))

    def __len__(self):
        return engine().choose(z3.Length(self.z), range(0, self.L + 1))

    # -- per-character maps (bounded length)
    def _map(self, fn, grow=1):
        parts = []
        for i in range(self.L):
            sub = z3.SubString(self.z, i, 1)
            parts.append(fn(sub, z3.StrToCode(sub)))
        z = z3.Concat(*parts) if len(parts) > 1 else (parts[0] if parts else
                                                      z3.StringVal(""))
        return SStr(z, self.L * grow)

    def lower(self):
        return self._map(lambda s, c: z3.If(z3.And(c >= 65, c <= 90),
                                            z3.StrFromCode(c + 32), s))

    def upper(self):
        return self._map(lambda s, c: z3.If(z3.And(c >= 97, c <= 122),
                                            z3.StrFromCode(c - 32), s))

    def replace(self, a, b, count=-1):
        if isinstance(a, SStr) or isinstance(b, SStr) or len(a) != 1 or count != -1:
            raise TypeError("symbolic replace supports a concrete single character only")
        return self._map(lambda s, c: z3.If(s == z3.StringVal(a), z3.StringVal(b), s),
                         grow=max(1, len(b)))

    def strip(self, *a):
        raise TypeError("symbolic strip not supported")

    def split(self, sep=None, maxsplit=-1):
        if sep is None or isinstance(sep, SStr) or maxsplit != 1:
            raise TypeError("symbolic split supports split(sep, 1) only")
        if not (sep in self):
            return [self]
        i = z3.IndexOf(self.z, z3.StringVal(sep), 0)
        n = z3.Length(self.z)
        return [SStr(z3.SubString(self.z, 0, i), self.L),
                SStr(z3.SubString(self.z, i + len(sep), n - i - len(sep)), self.L)]

    def __getitem__(self, k):
        if isinstance(k, slice):
            if k.step not in (None, 1):
                raise TypeError("symbolic slice step")
            start = k.start or 0
            if start < 0 or (k.stop is not None and k.stop < 0):
                raise TypeError("negative symbolic slice")
            n = z3.Length(self.z)
            if k.stop is None:
                return SStr(z3.SubString(self.z, start, n), self.L)
            if k.stop >= self.L and start == 0:
                return self
            return SStr(z3.SubString(self.z, start, k.stop - start), min(self.L, k.stop))
        if k < 0:
            raise TypeError("negative symbolic index")
        if not bool(SB(z3.Length(self.z) > k)):
            raise IndexError("string index out of range")
        return SStr(z3.SubString(self.z, k, 1), 1)

    def __add__(self, o):
        if isinstance(o, SStr):
            return SStr(z3.Concat(self.z, o.z), self.L + o.L)
        if isinstance(o, str):
            return SStr(z3.Concat(self.z, z3.StringVal(o)), self.L + len(o)) if o else self
        return NotImplemented

    def __radd__(self, o):
        if isinstance(o, str):
            return SStr(z3.Concat(z3.StringVal(o), self.z), self.L + len(o)) if o else self
        return NotImplemented

    def __repr__(self):
        return f"SStr({self.z})"

    def __str__(self):
        return self

    def __format__(self, spec):
        return str.__str__(self)


class SymDict:
    """defaultdict(int)-like mapping keyed by (possibly symbolic) strings: lookups fork
    on equality with the existing keys."""

    def __init__(self):
        self.items_ = []

    def _find(self, k):
        for i, (kk, _) in enumerate(self.items_):
            e = (kk == k)
            if bool(e):
                return i
        return None

    def __getitem__(self, k):
        i = self._find(k)
        if i is None:
            self.items_.append((k, 0))
            return 0
        return self.items_[i][1]

    def __setitem__(self, k, v):
        i = self._find(k)
        if i is None:
            self.items_.append((k, v))
        else:
            self.items_[i] = (self.items_[i][0], v)

    def __contains__(self, k):
        return self._find(k) is not None


# --------------------------------------------------------------------------- oracle


class PointOracle:
    """
    Solver stub for read-out code: each of the first `points` solve() calls 'returns' an
    arbitrary feasible point of the captured model as it stands at that moment (including
    the exclusion cuts added meanwhile).  The values of point k are fresh z3 copies of the
    model's variables (point 1: the variables themselves), so every getValue() on a binary
    forks the path; the next solve() reports infeasibility.
    `extra(model)` may add assumptions that bound the explored assignments.
    """

    def __init__(self, eng, extra=None, points=1):
        self.eng, self.extra, self.points = eng, extra, points
        self.calls = {}
        self.subs = {}

    def _sub(self, model, n=None):
        n = n or self.calls.get(id(model), 1)
        if n == 1:
            return None
        key = (id(model), n)
        if key not in self.subs:
            out = []
            for v in model.vars:
                nm = f"{v.zv}@{n}"
                f = z3.Bool(nm) if v.kind == "B" else z3.Int(nm) if v.kind == "I" \
                    else z3.Real(nm)
                out.append((v.zv, f))
            self.subs[key] = out
        # variables created after the first use (none in aldy's read-out loops)
        return self.subs[key]

    def at(self, model, t, n=None):
        """term t over the variables of point n (default: the current point)."""
        sub = self._sub(model, n)
        return t if sub is None else z3.substitute(t, sub)

    def solve(self, model):
        import aldy.lpinterface as lpi

        n = self.calls.get(id(model), 0) + 1
        self.calls[id(model)] = n
        if n > self.points:
            raise lpi.NoSolutionsError(f"oracle: {self.points} point(s) only")
        self.eng.assume(self.at(model, z3.And(model.z3_constraints())))
        if self.extra is not None:
            for c in self.extra(model):
                self.eng.assume(self.at(model, c))
        return "optimal", S(self.at(model, model.obj_z3()))

    def value(self, model, var):
        if isinstance(var, Var):
            if var.kind == "B":
                return SB(self.at(model, var.zv))
            return S(self.at(model, var.num()))
        if isinstance(var, L):
            return S(self.at(model, var.z3()))
        return var
