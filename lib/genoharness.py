"""
Harness around the real aldy.genotype.genotype(): everything it calls into (file
detection, Sample, Profile.load, the three stages) is replaced by stubs that return
objects with *symbolic scores / depths*, so that the selection, score carry-over, guard
and error logic of genotype() itself (and the real estimate_minor wrapper) runs on z3
terms.  Used by C10 and C19.
"""
import io
import contextlib
import collections

import symx
from symx import S
from aldy.gene import Gene
from aldy.common import script_path, GRange, AldyException
from aldy.profile import Profile
from aldy.solutions import CNSolution, MajorSolution, MinorSolution, SolvedAllele
from aldy.diplotype import estimate_diplotype

TOY = script_path("aldy.tests.resources/toy.yml")


class Out:
    """output file stub"""

    def __init__(self, name):
        self.name = name
        self.buf = io.StringIO()

    def write(self, s):
        self.buf.write(s)

    def flush(self):
        pass


class FakeCoverage:
    def __init__(self, profile, avg):
        self.profile = profile
        self._avg = avg
        self.sam = None
        self._coverage = {}

    def average_coverage(self):
        return self._avg

    def filtered(self, fn):
        return self

    def __getitem__(self, m):
        return 20

    def coverage(self, m):
        return 20

    def total(self, m):
        return 40

    def single_copy(self, m, cn):
        return 20

    def dump(self, *a):
        pass


class Harness:
    """
    plan: {"cn": [names...] per cn solution, "major": {cn_index: [ {allele: count}, ...]},
           "minor": {(cn_index, major_index): k}}
    scores are supplied by `score(kind, index)` callbacks returning S / numbers.
    """

    def __init__(self, plan, score, avg_cov=100.0, kind="sam", profile_factory=None,
                 sample_error=None):
        self.plan, self.score = plan, score
        self.avg_cov, self.kind = avg_cov, kind
        self.profile_factory = profile_factory
        self.sample_error = sample_error
        self.calls = []
        self.dump_params = {}
        self.seen_profile = None
        self.sym_params = {}
        self.records = {"cn": [], "major": {}, "minor": {}}

    # ---- stage stubs
    def estimate_cn(self, gene, profile, coverage, solver=None, debug=None):
        self.calls.append("cn")
        self.seen_gene = {"id": id(gene), "do_copy_number": gene.do_copy_number,
                          "alleles": len(gene.alleles)}
        self.seen_profile = {k: v for k, v in profile.__dict__.items()
                             if k not in ("name", "data", "cn_region", "neutral_value")}
        self.seen_profile["(gene) copy-number calling"] = gene.do_copy_number
        out = []
        for i, names in enumerate(self.plan["cn"]):
            s = CNSolution(gene, self.score("cn", i), list(names))
            s._vid = i
            out.append(s)
        self.records["cn"] = list(out)
        return out

    def estimate_major(self, gene, coverage, cn_sol, solver=None, identifier=0,
                       debug=None):
        self.calls.append("major")
        i = cn_sol._vid
        out = []
        for j, alleles in enumerate(self.plan["major"].get(i, [])):
            m = MajorSolution(
                self.score("major", (i, j)),
                collections.Counter({SolvedAllele(gene, a): c for a, c in alleles.items()}),
                cn_sol, [])
            m._vid = (i, j)
            out.append(m)
        self.records["major"][i] = list(out)
        return out

    def solve_minor_model(self, gene, coverage, major_sol, alleles, mutations, solver,
                          max_solutions=1):
        self.calls.append("minor")
        # find the id of this (re-wrapped) major solution through its contents
        key = None
        for i, lst in self.records["major"].items():
            for m in lst:
                if m.solution is major_sol.solution and m.cn_solution is major_sol.cn_solution:
                    key = m._vid
        out = []
        for k in range(self.plan["minor"].get(key, 0)):
            sols = []
            for sa, cnt in major_sol.solution.items():
                minors = list(gene.alleles[sa.major].minors)
                for c in range(cnt):
                    sols.append(SolvedAllele(gene, sa.major, minors[(k + c) % len(minors)],
                                             [], []))
            ms = MinorSolution(self.score("minor", key + (k,)), sols, major_sol,
                               profile=coverage.profile)
            estimate_diplotype(gene, ms)
            ms._vid = key + (k,)
            out.append(ms)
        self.records["minor"].setdefault(key, []).extend(out)
        return out

    # ---- run
    def run(self, gap=0.0, output=None, is_simple=False, cn_solution=None,
            profile_name="illumina", params=None):
        import aldy.genotype as G
        import aldy.minor as minor_mod
        import aldy.sam as sam_mod

        h = self
        params = dict(params or {})
        params["gap"] = gap
        # the original run's parameters are what the pickled profile carries
        self.dump_params = {k: v for k, v in params.items() if not symx.is_sym(v)}
        for k_ in list(params):
            if symx.is_sym(params[k_]):
                self.sym_params[k_] = params.pop(k_)

        class FakeSample:
            def __init__(self, gene, profile, path, reference=None, debug=None):
                h.calls.append("sample")
                if h.sample_error:
                    raise AldyException(h.sample_error)
                self.name = "sample"
                if h.kind == "dump":
                    # what Sample._load_dump leaves behind whatever profile it was given:
                    # the pickled profile of the original run with the three debug
                    # switches and min_avg_coverage reset
                    cnsol = profile.cn_solution if profile is not None else None
                    profile = FakeProfile("dumped", None if cnsol else GRange("22", 1, 100),
                                          {"x": 1}, neutral_value=1.0, cn_solution=cnsol,
                                          **h.dump_params)
                    profile.display_format = False
                    profile.debug_probe = ""
                    profile.debug_novel = False
                    profile.min_avg_coverage = 2.0
                self.profile = profile
                self.is_long_read = False
                self.coverage = FakeCoverage(profile, h.avg_cov)

        class FakeProfile(Profile):
            def __init__(self, *a, **kw):
                Profile.__init__(self, *a, **kw)
                # symbolic parameter values cannot pass Profile.update's float()/int()
                for k_, v_ in h.sym_params.items():
                    setattr(self, k_, v_)

            @staticmethod
            def load(gene, profile, cn_region=None, **kw):
                h.calls.append("profile")
                p = FakeProfile(profile, GRange("22", 1, 100), {"x": 1},
                                neutral_value=1.0, **kw)
                return p

        saved = {}

        def patch(mod, name, val):
            saved[(mod, name)] = mod.__dict__.get(name, None)
            setattr(mod, name, val)

        patch(sam_mod, "detect_genome", lambda p: (h.kind, "hg19"))
        patch(sam_mod, "Sample", FakeSample)
        patch(G, "Profile", FakeProfile)
        patch(G.cn, "estimate_cn", self.estimate_cn)
        patch(G.major, "estimate_major", self.estimate_major)
        patch(minor_mod, "solve_minor_model", self.solve_minor_model)
        patch(minor_mod, "_print_candidates", lambda *a, **k: None)
        patch(minor_mod, "min", symx.smin)
        patch(G, "int", _floor_int)
        patch(G, "min", _min_key)
        try:
            with contextlib.redirect_stdout(io.StringIO()):
                return G.genotype(TOY, TOY, profile_name, output_file=output,
                                  cn_solution=cn_solution, solver="any", genome="hg19",
                                  is_simple=is_simple, **params)
        finally:
            for (mod, name), val in saved.items():
                if val is None:
                    try:
                        delattr(mod, name)
                    except AttributeError:
                        pass
                else:
                    setattr(mod, name, val)


def _min_key(it, key=None, **kw):
    """min(iterable, key=...) on symbolic keys: forks on comparisons (python semantics:
    first minimal element)."""
    it = list(it)
    if not it:
        if "default" in kw:
            return kw["default"]
        raise ValueError("min() arg is an empty sequence")
    best = it[0]
    kb = key(best) if key else best
    for x in it[1:]:
        kx = key(x) if key else x
        if kx < kb:
            best, kb = x, kx
    return best


def _floor_int(x, *a):
    """int() for non-negative symbolic scores = floor (truncation needs no case split)."""
    import z3
    if isinstance(x, S):
        return S(z3.ToReal(z3.ToInt(x.t)))
    return int(x, *a)
