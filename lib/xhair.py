"""
CrossHair runner (E2): one OS process per harness function (condition), outcome
classification, counterexample parsing and uninstrumented replay.

A harness function returns "ok" or a message; its docstring ends with `post: _ == "ok"`.
"""

import os
import re
import ast
import sys
import time
import importlib
import subprocess

VERIF = os.path.dirname(os.path.dirname(os.path.abspath(__file__)))
HARNESS = os.path.join(VERIF, "harness")


def line_of(path, func):
    for i, l in enumerate(open(path), 1):
        if re.match(rf"def {re.escape(func)}\(", l):
            return i
    raise KeyError(func)


def run_one(module, func, timeout, env=None, extra=()):
    """returns dict(status=confirmed|cex|unknown|error, args=..., raw=..., secs=...)"""
    path = os.path.join(HARNESS, module + ".py")
    ln = line_of(path, func)
    e = dict(os.environ)
    e["PYTHONPATH"] = (f"{HARNESS}:{os.path.join(VERIF, 'lib')}:"
                       + os.environ.get("VERIF_REPO", "/repo"))
    e["PYTHONWARNINGS"] = "ignore"
    e["PYTHONHASHSEED"] = "0"
    if env:
        e.update({k: str(v) for k, v in env.items()})
    venv = os.environ.get("VERIF_VENV") or os.path.join(VERIF, ".venv")
    cmd = [os.path.join(venv, "bin/crosshair"), "check", "--report_all",
           "--per_condition_timeout", str(timeout), *extra, f"{path}:{ln + 1}"]
    t0 = time.time()
    try:
        p = subprocess.run(cmd, capture_output=True, text=True, env=e,
                           timeout=timeout * 3 + 120)
        out = p.stdout + p.stderr
    except subprocess.TimeoutExpired as ex:
        out = f"TIMEOUT {ex}"
    secs = time.time() - t0
    res = {"func": func, "secs": round(secs, 2), "raw": out[-1500:], "env": env or {}}
    lines = [l for l in out.splitlines() if f"{module}.py" in l]
    for l in lines:
        head = l.split(" (which ", 1)[0]
        m = re.search(r"error: (.*?) when calling (\w+)\((.*)\)\s*$", head)
        if m:
            res["status"] = "cex"
            res["why"] = m.group(1)
            res["call"] = f"{m.group(2)}({m.group(3)})"
            try:
                res["args"] = parse_args(m.group(3))
            except Exception as ex:  # noqa
                res["args"] = None
                res["parse_error"] = str(ex)
            return res
        m2 = re.search(r"error: (.*)$", l)
        if m2 and "when calling" not in l:
            res["status"] = "error"
            res["why"] = m2.group(1)
            return res
    if any("info: Confirmed over all paths" in l for l in lines):
        res["status"] = "confirmed"
    elif any("Not confirmed" in l or "Unable to meet precondition" in l for l in lines):
        res["status"] = "unknown"
        res["why"] = next(l for l in lines if "Not confirmed" in l or "Unable" in l)[-80:]
    else:
        res["status"] = "unknown"
        res["why"] = "no verdict line"
    return res


def parse_args(s):
    """'5, \\'x\\', a=3' -> ([5, 'x'], {'a': 3})"""
    node = ast.parse(f"f({s})", mode="eval").body
    args = [ast.literal_eval(a) for a in node.args]
    kw = {k.arg: ast.literal_eval(k.value) for k in node.keywords}
    return args, kw


def replay_call(module, func, args, kw=None, env=None):
    """Call the harness function without CrossHair; returns its return value."""
    saved = {}
    for k, v in (env or {}).items():
        saved[k] = os.environ.get(k)
        os.environ[k] = str(v)
    try:
        if HARNESS not in sys.path:
            sys.path.insert(0, HARNESS)
        if module in sys.modules:
            mod = importlib.reload(sys.modules[module])
        else:
            mod = importlib.import_module(module)
        return getattr(mod, func)(*args, **(kw or {}))
    finally:
        for k, v in saved.items():
            if v is None:
                os.environ.pop(k, None)
            else:
                os.environ[k] = v
