"""
Deterministic small gene databases (G_gen of DESIGN.md) and loaders for toy / shipped genes.

A database is described in RefSeq terms (1-based positions like the YAML files); the
genome-side region coordinates of each build are derived here from the build's strand,
offset and alignment string, so that the two builds describe the same gene.
"""

import random
import functools
import yaml

from aldy.gene import Gene
from aldy.common import script_path


def _seq(n, seed):
    """pseudo-random sequence without repeated 4-mers (so that a shift cannot hide)."""
    rnd = random.Random(seed)
    while True:
        s, seen = "", set()
        while len(s) < n:
            opts = [c for c in "ACGT" if len(s) < 3 or (s[-3:] + c) not in seen]
            if not opts:
                break
            c = rnd.choice(opts)
            s += c
            if len(s) >= 4:
                seen.add(s[-4:])
        if len(s) == n:
            return s


def _ref_to_chr(start, strand, cigar, n):
    """independent re-derivation of the RefSeq->genome map (0-based)."""
    m = {}
    pos_ref = 0 if strand == "+" else n - 1
    step = 1 if strand == "+" else -1
    pos_chr = start - 1
    for tok in cigar.split():
        op, sz = tok[0], int(tok[1:])
        if op == "M":
            for i in range(sz):
                m[pos_ref + i * step] = pos_chr + i
            pos_chr += sz
            pos_ref += sz * step
        elif op == "I":
            pos_ref += sz * step
        elif op == "D":
            pos_chr += sz
    return m


def make_db(name, seqlen, seed, regions, exons, builds, alleles, pseudo=None,
            cn_regions=None, tandems=None, plant=()):
    """
    regions: ordered {name: (ref_start, ref_end)} 1-based half-open [s, e) RefSeq coords
             (exons named e1.. ; introns are filled by aldy);
    builds:  {genome: (chr, start, strand, cigar, pseudo_shift)} ; pseudo_shift = genome
             offset of the pseudogene copy relative to the gene copy (None: no pseudogene)
    """
    seq = _seq(seqlen, seed)
    for pos, motif in plant:  # tandem repeats written into the sequence (1-based)
        seq = seq[:pos - 1] + motif + seq[pos - 1 + len(motif):]
    y = {
        "name": name, "version": "gen-1", "generated": "2026-09-26",
        "alleles": alleles,
        "structure": {"genes": [name] + ([pseudo] if pseudo else []), "regions": {},
                      "cn_regions": cn_regions or []},
        "reference": {"name": "NG_GEN", "mappings": {}, "exons": [list(e) for e in exons],
                      "seq": seq},
    }
    if tandems:
        y["structure"]["tandems"] = tandems
    for genome, (ch, start, strand, cigar, pshift) in builds.items():
        r2c = _ref_to_chr(start, strand, cigar, seqlen)
        span = max(r2c.values()) - min(r2c.values()) + 1
        end = start + span
        y["reference"]["mappings"][genome] = [ch, start, end, strand, cigar]
        regs = {}
        for rn, (s, e) in regions.items():
            # RefSeq [s-1, e-1) 0-based ; genome interval covering the mapped bases
            idx = [r2c[i] for i in range(s - 1, e - 1) if i in r2c]
            lo, hi = min(idx), max(idx) + 1
            coords = [lo + 1, hi + 1]
            if pseudo:
                coords += [lo + 1 + pshift, hi + 1 + pshift]
            regs[rn] = coords
        y["structure"]["regions"][genome] = regs
    return y


def _A(name, label, muts, **kw):
    d = {"label": label, "mutations": muts}
    d.update(kw)
    return name, d


@functools.lru_cache(maxsize=None)
def gen_yaml(which):
    if which == "GA":
        # + strand in hg19, - strand in hg38, pseudogene, fusions, deletion, MNP, indels
        regions = {"up": (1, 11), "e1": (11, 31), "e2": (41, 61), "e3": (71, 91),
                   "down": (91, 121)}
        al = dict([
            _A("GA*1.001", "GA*1", []),
            _A("GA*1.002", "GA*1B", [[45, "SNP1", "rs1"]]),
            _A("GA*2.001", "GA*2", [[15, "SNP2", "rs2", "functional"]]),
            _A("GA*2.002", "GA*2B", [[15, "SNP2", "rs2", "functional"], [95, "SNP3", "-"]]),
            _A("GA*3.001", "GA*3", [[50, "SNP4", "rs4", "functional"],
                                    [20, "INS1", "-", "frameshift"]]),
            _A("GA*4.001", "GA*4", [[75, "DEL1", "-", "frameshift"], [45, "SNP1", "rs1"]]),
            _A("GA*5.001", "GA*5", [["GAP", "i1-"]]),
            _A("GA*6.001", "GA*6", [["GAP", "e3+"], [15, "SNP2", "rs2", "functional"],
                                    [85, "SNP6", "rs6"]]),
            _A("GA*7.001", "GA*7", [["GA", "deletion"]]),
            _A("GA*8.001", "GA*8", [[80, "MNP1", "-", "functional"]]),
            _A("GA*9.001", "GA*9", [[50, "SNP5", "rs5", "functional"]]),
        ])
        y = make_db("GA", 120, 11, regions, [(11, 31), (41, 61), (71, 91)],
                    {"hg19": ("9", 5001, "+", "M120", -1000),
                     "hg38": ("9", 7001, "-", "M120", 1000)},
                    al, pseudo="GAP", cn_regions=["e1", "i1", "e2", "i2", "e3"],
                    tandems=[["5", "1"], ["5", "2"]])  # two tandems share a head
    elif which == "GB":
        # - strand in hg19, + strand in hg38, no pseudogene, no structural alleles,
        # two substitutions at one site, insertion and substitution at one site
        regions = {"up": (1, 9), "e1": (9, 39), "e2": (49, 69), "down": (69, 101)}
        al = dict([
            _A("GB*1.001", "GB*1", []),
            _A("GB*2.001", "GB*2", [[20, "SNP1", "rs1", "functional"]]),
            _A("GB*3.001", "GB*3", [[20, "SNP1ALT", "rs1b", "functional"]]),
            _A("GB*4.001", "GB*4", [[55, "INS1", "-", "frameshift"]]),
            _A("GB*5.001", "GB*5", [[55, "SNP2", "-", "functional"],
                                    [60, "DEL1", "-", "frameshift"]]),
            _A("GB*5.002", "GB*5B", [[55, "SNP2", "-", "functional"],
                                     [60, "DEL1", "-", "frameshift"], [75, "SNP3", "rs3"]]),
            _A("GB*6.001", "GB*6", [[20, "SNP1", "rs1", "functional"],
                                    [55, "SNP2", "-", "functional"]]),
        ])
        y = make_db("GB", 100, 23, regions, [(9, 39), (49, 69)],
                    {"hg19": ("4", 3001, "-", "M100", None),
                     "hg38": ("4", 9001, "+", "M100", None)},
                    al, cn_regions=[])
    elif which == "GC":
        # + strand both builds, alignment with I/D in hg19, custom partial deletion,
        # pseudogene, right fusion without own core variants
        regions = {"up": (1, 11), "e1": (11, 31), "e2": (41, 61), "down": (61, 91)}
        al = dict([
            _A("GC*1.001", "GC*1", []),
            _A("GC*2.001", "GC*2", [[25, "SNP1", "rs1", "functional"]]),
            _A("GC*3.001", "GC*3", [[45, "SNP2", "rs2", "functional"], [70, "SNP3", "rs3"]]),
            _A("GC*4.001", "GC*4", [["GC", "deletion:e2,down"]]),
            _A("GC*5.001", "GC*5", [["GCP", "e2+"]]),
            _A("GC*6.001", "GC*6", [["GC", "deletion"]]),
        ])
        y = make_db("GC", 90, 37, regions, [(11, 31), (41, 61)],
                    {"hg19": ("7", 2001, "+", "M34 I2 M20 D3 M34", -500),
                     "hg38": ("7", 6001, "+", "M90", -500)},
                    al, pseudo="GCP", cn_regions=["e1", "i1", "e2"])
    elif which == "GD":
        # variants on the first / last base of regions, structures that break exactly
        # there (+ strand in hg19, - strand in hg38)
        regions = {"up": (1, 11), "e1": (11, 31), "e2": (41, 61), "e3": (71, 91),
                   "down": (91, 121)}
        al = dict([
            _A("GD*1.001", "GD*1", []),
            _A("GD*2.001", "GD*2", [[40, "SNP1", "rs1", "splice"]]),      # last base of i1
            _A("GD*3.001", "GD*3", [[41, "SNP2", "rs2", "functional"]]),  # first base of e2
            _A("GD*4.001", "GD*4", [[60, "SNP3", "rs3", "functional"]]),  # last base of e2
            _A("GD*4.002", "GD*4B", [[60, "SNP3", "rs3", "functional"], [61, "SNP4", "rs4"]]),
            _A("GD*5.001", "GD*5", [["GDP", "e2-"]]),
            _A("GD*6.001", "GD*6", [["GDP", "e2+"]]),
            _A("GD*7.001", "GD*7", [["GD", "deletion:e2"]]),
            _A("GD*8.001", "GD*8", [[30, "SNP5", "rs5", "functional"]]),  # last base of e1
            _A("GD*9.001", "GD*9", [[50, "DELINS1", "rs6", "functional"]]),  # delXYinsZ
            _A("GD*10.001", "GD*10", [[1, "SNP6", "rs7", "functional"]]),   # first RefSeq base
            _A("GD*11.001", "GD*11", [[120, "SNP7", "rs8", "functional"]]),  # last RefSeq base
        ])
        y = make_db("GD", 120, 53, regions, [(11, 31), (41, 61), (71, 91)],
                    {"hg19": ("5", 8001, "+", "M120", -2000),
                     "hg38": ("5", 3001, "-", "M120", 2000)},
                    al, pseudo="GDP", cn_regions=["e1", "i1", "e2", "i2", "e3"])
    elif which == "GE":
        # tandem repeats with catalogued multi-base indels inside them (written at the
        # 3' end of the repeat, as databases do), + strand in hg19, - strand in hg38
        regions = {"up": (1, 11), "e1": (11, 51), "e2": (61, 101), "down": (101, 121)}
        al = dict([
            _A("GE*1.001", "GE*1", []),
            _A("GE*2.001", "GE*2", [[31, "insCAG", "rs1", "frameshift"]]),  # (CAG)4 20-31
            _A("GE*3.001", "GE*3", [[76, "delTC", "rs2", "frameshift"]]),   # (TC)4 70-77
            _A("GE*4.001", "GE*4", [[90, "SNP1", "rs3", "functional"]]),
        ])
        y = make_db("GE", 120, 71, regions, [(11, 51), (61, 101)],
                    {"hg19": ("7", 2001, "+", "M120", None),
                     "hg38": ("7", 6001, "-", "M120", None)},
                    al, plant=[(19, "T" + "CAG" * 4 + "T"), (69, "A" + "TC" * 4 + "G")])
    else:
        raise KeyError(which)
    # resolve symbolic op names against the generated sequence
    seq = y["reference"]["seq"]
    other = {"A": "C", "C": "G", "G": "T", "T": "A"}
    other2 = {"A": "G", "C": "T", "G": "A", "T": "C"}

    def op_for(pos, sym):
        b = seq[pos - 1]
        if sym.startswith("SNP") and sym.endswith("ALT"):
            return f"{b}>{other2[b]}"
        if sym.startswith("SNP"):
            return f"{b}>{other[b]}"
        if sym.startswith("INS"):
            return "ins" + other[b] + other2[b]
        if sym.startswith("DELINS"):
            return "del" + seq[pos - 1:pos + 1] + "ins" + other[seq[pos - 1]]
        if sym.startswith("DEL"):
            return "del" + seq[pos - 1:pos + 1]
        if sym.startswith("MNP"):
            l = seq[pos - 1:pos + 2]
            r = other[l[0]] + l[1] + other[l[2]]
            return f"{l[0]}.{l[2]}>{r[0]}.{r[2]}"
        return sym

    for an, a in y["alleles"].items():
        for mu in a["mutations"]:
            if isinstance(mu[0], int):
                mu[1] = op_for(mu[0], mu[1])
    return yaml.safe_dump(y, sort_keys=False)


@functools.lru_cache(maxsize=None)
def load(which, genome=None):
    """which: 'toy', 'GA'.., or a shipped gene name (lower case)."""
    if which == "toy":
        return Gene(script_path("aldy.tests.resources/toy.yml"), genome=genome)
    if which in ("GA", "GB", "GC", "GD", "GE"):
        return Gene(None, name=which, yml=gen_yaml(which), genome=genome)
    return Gene(script_path(f"aldy.resources.genes/{which}.yml"), genome=genome)


def shipped_genes():
    import pkg_resources

    return sorted(g[:-4] for g in pkg_resources.resource_listdir("aldy.resources", "genes")
                  if g.endswith(".yml"))
