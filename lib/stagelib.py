"""
Evidence objects and reference specifications shared by the stage checks (C02-C04, C13, C15).

Specifications are written from the property text / paper, independently of the model
builders, as functions that work on both number types (python numbers and symx.S / z3).
"""

import collections
import itertools
import z3

import symx
from symx import S, tz
from aldy.gene import Mutation, CNConfigType
from aldy.coverage import Coverage
from aldy.solutions import CNSolution


class SymList:
    """a list of observations of which only the (symbolic) length is known."""

    __slots__ = ("n",)

    def __init__(self, n):
        self.n = n


def _slen(x):
    return x.n if isinstance(x, SymList) else len(x)


class _Shadows:
    """len/sum/float of aldy.coverage understand SymList / symbolic numbers while one of
    the real accessors runs."""

    def __enter__(self):
        import aldy.coverage as cm

        self.cm = cm
        self.saved = {k: cm.__dict__.get(k) for k in ("len", "sum", "float")}
        cm.len, cm.sum, cm.float = _slen, symx.ssum, symx.sfloat

    def __exit__(self, *a):
        for k, v in self.saved.items():
            if v is None:
                self.cm.__dict__.pop(k, None)
            else:
                setattr(self.cm, k, v)
        return False


def _plain(x):
    """symbolic number whose term simplifies to a numeral -> python float."""
    if isinstance(x, S):
        t = z3.simplify(x.t)
        if z3.is_rational_value(t) or z3.is_int_value(t):
            return float(t.as_fraction())
        return S(t)
    return x


class SymCoverage(Coverage):
    """
    Coverage whose observation lists have symbolic lengths (SymList).  coverage() and
    total() are the real accessors (run with len/sum/float shadows); single_copy /
    percentage / basic_filter / __getitem__ / dump are the real ones as well; only the
    copying filter is overridden.  `totals` is what the specification side uses; the real
    total() recomputes the depth from the observation table.
    """

    def __init__(self, gene, profile, counts, totals, sam=None, identity_filter=True,
                 lowq=None):
        Coverage.__init__(self, gene, profile, sam, {}, None, {})
        self._sc = dict(counts)  # (pos, op) -> S | number   (qualifying observations)
        self._tot = dict(totals)  # pos -> S | number
        self._identity = identity_filter
        # optional observations below the quality thresholds: {(pos, op): S}; they are
        # part of this (raw) evidence and disappear in filtered(quality_filter)
        self._lowq = dict(lowq or {})
        self._coverage = {}
        for (pos, op), c in self._sc.items():
            lq = self._lowq.get((pos, op))
            self._coverage.setdefault(pos, {})[op] = SymList(c if lq is None else c + lq)
        for (pos, op), lq in self._lowq.items():
            if (pos, op) not in self._sc:
                self._coverage.setdefault(pos, {})[op] = SymList(lq)

    def coverage(self, mut):
        with _Shadows():
            return _plain(Coverage.coverage(self, mut))

    def total(self, m):
        with _Shadows():
            return _plain(Coverage.total(self, m))

    def filtered(self, fn):
        if self._identity:
            return self
        if fn is Coverage.quality_filter:
            # symbolic counts stand for the observations that passed the quality filter
            # (that filter is decided on symbolic qualities in C15/quality)
            return SymCoverage(self.gene, self.profile, self._sc, self._tot, self.sam, False)
        # the real Coverage.filtered on the table of symbolic-length lists; the predicate's
        # symbolic truth value forks the path and is handed over as a python bool
        def decided(cov, mut):
            f = fn(cov, mut)
            if isinstance(f, list):
                raise TypeError("list-returning filters need a real Coverage")
            return bool(f)

        new = Coverage.filtered(self, decided)
        new._identity = False
        new._lowq = {}
        new._sc = {(pos, op): v.n for pos, d in new._coverage.items() for op, v in d.items()}
        tot = collections.defaultdict(lambda: 0)
        for (pos, op), c in new._sc.items():
            if op[:3] != "ins":
                tot[pos] = tot[pos] + c
        new._tot = dict(tot)
        return new


def concrete_coverage(gene, profile, counts, sam=None, qual=(60, 60)):
    """Real Coverage from integer counts {(pos, op): n}."""
    cov = collections.defaultdict(dict)
    for (pos, op), c in counts.items():
        cov[pos][op] = [qual] * int(c)
    return Coverage(gene, profile, sam, cov, None, {})


def table_depth(cov, pos):
    """depth of a locus read off the observation table, independently of Coverage.total:
    every observation there that is not an insertion."""
    return float(sum(len(v) for op, v in cov._coverage.get(pos, {}).items()
                     if not op.startswith("ins")))


def core_variants(gene):
    return sorted(Mutation(*m) for m in gene.mutations if gene.is_functional(m))


def allele_has_region(gene, allele, pos):
    """independent of Gene.has_coverage: region copy number of the allele's structure."""
    r = gene.region_at(pos)
    if not r:
        return False
    return gene.cn_configs[gene.alleles[allele].cn_config].cn[r[0]][r[1]] > 0


def position_cn(gene, cn_list, pos):
    """copy number of the structure multiset at a position (from the configs)."""
    r = gene.region_at(pos)
    if not r:
        return 0
    return sum(gene.cn_configs[c].cn[r[0]][r[1]] for c in cn_list
               if r[0] < len(gene.cn_configs[c].cn))


def observed_copies(count, depth, cn):
    """observed copy number of an allele at a site = count * cn / max(1, depth)."""
    if cn == 0:
        return 0
    if symx.is_sym(depth):
        d = S(z3.If(tz(depth) > 1, tz(depth), z3.RealVal(1)))
    else:
        d = max(1, depth)
    return count * cn / d


def is_ins(m):
    return m[1][:3] == "ins"


# ------------------------------------------------------------------ major spec


def major_candidates(gene, cn_list, supported):
    """alleles whose structure is in the gene structure and whose core variants all
    have (filtered) support.  supported: set of Mutation."""
    return [an for an, a in gene.alleles.items()
            if a.cn_config in cn_list and all(m in supported for m in a.func_muts)]


def major_spec_error(gene, cn_list, F, counts, depth, n, novel, penalty, per_novel=0.1,
                     If=None):
    """
    Fit error of a major-allele combination.
      F       observed core variants (support > 0)
      n       {allele: copies}  (numbers or z3 terms)
      novel   {m: 0/1}
    Sum over F of |observed - called| + over the sites of F of |observed ref - called ref|
    + penalty*[any novel] + per_novel*#novel.
    """
    If = If or (lambda c, a, b: a if c else b)
    terms = []
    for m in F:
        cn = position_cn(gene, cn_list, m.pos)
        obs = observed_copies(counts[m], depth(m), cn)
        called = sum([n[a] for a in n if m in gene.alleles[a].func_muts]) + novel[m]
        terms.append((m, obs - called))
    for pos in sorted({m.pos for m in F}):
        cn = position_cn(gene, cn_list, pos)
        ref = Mutation(pos, "_")
        obs = observed_copies(counts.get(ref, 0), depth(ref), cn)
        called = sum([n[a] for a in n
                      if allele_has_region(gene, a, pos)
                      and not any(x.pos == pos and not is_ins(x)
                                  for x in gene.alleles[a].func_muts)])
        terms.append((ref, obs - called))
    return terms


def enumerate_major(gene, cn_list, counts, depth_of, penalty, candidates=None):
    """
    Concrete judge: all admissible combinations with their spec score.
    Returns list of (score, allele multiset tuple, novel tuple).
    """
    F = [m for m in core_variants(gene) if counts.get(m, 0) > 0]
    supported = set(F)
    cands = candidates if candidates is not None else major_candidates(
        gene, cn_list, supported)
    cn = collections.Counter(cn_list)
    per_cfg = []
    for cfg, cnt in sorted(cn.items()):
        al = sorted(a for a in cands if gene.alleles[a].cn_config == cfg)
        per_cfg.append(list(itertools.combinations_with_replacement(al, cnt)))
    out = []
    for combo in itertools.product(*per_cfg):
        alleles = tuple(sorted(a for part in combo for a in part))
        n = collections.Counter(alleles)
        carried = {m for a in n for m in gene.alleles[a].func_muts}
        novel = {m: int(m not in carried) for m in F}
        bysite = collections.Counter(m.pos for m in F if novel[m] and not is_ins(m))
        if any(v > 1 for v in bysite.values()):
            continue
        terms = major_spec_error(gene, cn_list, F, counts, depth_of, n, novel, penalty)
        score = sum(abs(t) for _, t in terms)
        k = sum(novel.values())
        score += penalty * (1 if k else 0) + 0.1 * k
        out.append((score, alleles, tuple(sorted(m for m in F if novel[m]))))
    return sorted(out)


def judge_major(gene, cn_list, counts, depth_of, penalty, gap, sols, tol=1e-4):
    """Compare real estimate_major output with the enumeration. Returns list of problems."""
    cn = collections.Counter(cn_list)
    expected = enumerate_major(gene, cn_list, counts, depth_of, penalty)
    problems = []
    exp = {(a, nv): s for s, a, nv in expected}
    rep = []
    for s in sols:
        alleles = tuple(sorted(a.major for a, c in s.solution.items() for _ in range(c)))
        nv = tuple(sorted(s.added))
        rep.append((alleles, nv, s.score))
        per = collections.Counter(gene.alleles[a].cn_config for a in alleles)
        if per != cn:
            problems.append(f"reported {alleles} gives configurations {dict(per)} "
                            f"but the structure is {dict(cn)}")
            continue
        if (alleles, nv) not in exp:
            problems.append(f"reported combination {alleles} novel={nv} is not admissible "
                            "(carried-xor-novel / one-novel-per-site / candidates)")
            continue
        if abs(exp[alleles, nv] - s.score) > tol:
            problems.append(f"reported score {s.score} of {alleles} novel={nv} differs "
                            f"from its fit error {exp[alleles, nv]}")
    keys = [(a, nv) for a, nv, _ in rep]
    if len(set(keys)) != len(keys):
        problems.append(f"combination reported twice: {keys}")
    if expected:
        best = expected[0][0]
        if not rep:
            problems.append(f"nothing reported although {expected[0]} is admissible")
        else:
            if min(r[2] for r in rep) > best + tol:
                problems.append(f"best reported {min(r[2] for r in rep)} but "
                                f"{expected[0]} scores {best}")
            for s_, a, nv in expected:
                if s_ <= (1 + gap) * best - tol and (a, nv) not in keys:
                    problems.append(f"admissible within-gap combination {a} novel={nv} "
                                    f"score {s_} (best {best}, gap {gap}) not reported")
            for a, nv, sc in rep:
                if sc > (1 + gap) * best + tol + 1e-5:
                    problems.append(f"reported {a} score {sc} outside gap of {best}")
    elif rep:
        problems.append(f"reported {keys} but no admissible combination exists")
    return problems
