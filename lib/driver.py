import sys, os, json, argparse, importlib, warnings
warnings.filterwarnings("ignore")

def main():
    ap = argparse.ArgumentParser()
    ap.add_argument("pid")
    ap.add_argument("--tier", default=os.environ.get("VERIF_TIER", "quick"))
    ap.add_argument("--replay", default=None)
    ap.add_argument("--only", default=None)
    ap.add_argument("--procs", type=int, default=None)
    a = ap.parse_args()
    seed = int(os.environ.get("VERIF_SEED", "0") or 0)
    mod = importlib.import_module(a.pid.lower())
    import vcommon
    if a.replay:
        obj = json.load(open(a.replay))
        ok, msg = mod.replay(obj["replay"])
        print(("REPRODUCED: " if ok else "NOT-REPRODUCED: ") + msg)
        sys.exit(1 if ok else 0)
    sys.exit(vcommon.run_check(mod, a.tier, seed=seed, procs=a.procs, only=a.only))

if __name__ == "__main__":
    main()
