"""CrossHair harnesses for C18: model parameters take the values the user gave.

Every function returns "ok" or a message describing the violation; `post: _ == "ok"`.
The specification (spec_*) is written from the property text:
  booleans accept true/false in any letter case, 1/0 and real booleans; numbers are
  parsed as numbers; unknown names are ignored; malformed values are rejected.
"""
import os
import argparse
from typing import Optional

import aldy.profile
from aldy.profile import Profile
from aldy.common import AldyException, GRange

_P0 = Profile("x").__dict__
STRUCT = ("name", "cn_region", "data", "cn_solution")
BOOLS = sorted(k for k, v in _P0.items() if isinstance(v, bool))
INTS = sorted(k for k, v in _P0.items() if type(v) is int)
FLOATS = sorted(k for k, v in _P0.items() if isinstance(v, float))
STRS = sorted(k for k, v in _P0.items() if isinstance(v, str) and k not in STRUCT)
ALL = BOOLS + INTS + FLOATS + STRS


def spec_bool(v) -> Optional[bool]:
    if isinstance(v, bool):
        return v
    if isinstance(v, int):
        return {0: False, 1: True}.get(v)
    if isinstance(v, str):
        s = v.lower()
        if s in ("true", "1"):
            return True
        if s in ("false", "0"):
            return False
    return None


def _get(name, v):
    try:
        return True, getattr(Profile("x", **{name: v}), name)
    except AldyException:
        return False, None


def bool_param_string(idx: int, v: str) -> str:
    """
    pre: 0 <= idx < len(BOOLS)
    pre: len(v) <= 5
    post: _ == "ok"
    """
    name = BOOLS[idx]
    want = spec_bool(v)
    ok, got = _get(name, v)
    if not ok:
        return "ok" if want is None else f"{name}={v!r} rejected"
    if want is None:
        return f"{name}={v!r} (malformed) accepted as {got!r}"
    return "ok" if (got is want) else f"{name}={v!r} gives {got!r}"


def bool_param_native(idx: int, v: bool) -> str:
    """
    pre: 0 <= idx < len(BOOLS)
    post: _ == "ok"
    """
    name = BOOLS[idx]
    ok, got = _get(name, v)
    return "ok" if ok and got is v else f"{name}={v!r} gives {got!r}"


def bool_param_int(idx: int, v: int) -> str:
    """
    pre: 0 <= idx < len(BOOLS)
    pre: 0 <= v <= 1
    post: _ == "ok"
    """
    name = BOOLS[idx]
    ok, got = _get(name, v)
    return "ok" if ok and got is bool(v) else f"{name}={v!r} gives {got!r}"


def int_param_string(idx: int, v: str) -> str:
    """
    pre: 0 <= idx < len(INTS)
    pre: len(v) <= 4
    post: _ == "ok"
    """
    name = INTS[idx]
    try:
        want = int(v)
    except ValueError:
        want = None
    ok, got = _get(name, v)
    if not ok:
        return "ok" if want is None else f"{name}={v!r} rejected"
    if want is None:
        return f"{name}={v!r} (malformed) accepted as {got!r}"
    return "ok" if (type(got) is int and got == want) else f"{name}={v!r} gives {got!r}"


def float_param_string(idx: int, v: str) -> str:
    """
    pre: 0 <= idx < len(FLOATS)
    pre: len(v) <= 4
    post: _ == "ok"
    """
    name = FLOATS[idx]
    try:
        want = float(v)
    except ValueError:
        want = None
    ok, got = _get(name, v)
    if not ok:
        return "ok" if want is None else f"{name}={v!r} rejected"
    if want is None:
        return f"{name}={v!r} (malformed) accepted as {got!r}"
    same = type(got) is float and (got == want or (got != got and want != want))
    return "ok" if same else f"{name}={v!r} gives {got!r}"


def num_param_native(idx: int, v: int) -> str:
    """
    pre: 0 <= idx < len(INTS) + len(FLOATS)
    pre: -1000 <= v <= 100000
    post: _ == "ok"
    """
    name = (INTS + FLOATS)[idx]
    ok, got = _get(name, v)
    typ = int if name in INTS else float
    return "ok" if ok and type(got) is typ and got == v else f"{name}={v!r} gives {got!r}"


def str_param(idx: int, v: str) -> str:
    """
    pre: 0 <= idx < len(STRS)
    pre: len(v) <= 4
    post: _ == "ok"
    """
    name = STRS[idx]
    ok, got = _get(name, v)
    return "ok" if ok and got == v else f"{name}={v!r} gives {got!r}"


def unknown_name(name: str, v: str) -> str:
    """
    pre: len(name) <= 4 and len(v) <= 3
    pre: name not in _P0
    post: _ == "ok"
    """
    try:
        p = Profile("x", **{name: v})
    except AldyException:
        return f"unknown parameter {name!r} rejected instead of ignored"
    return "ok" if p.__dict__ == _P0 else f"unknown parameter {name!r} changed the profile"


def update_returns_typed(idx: int, v: str) -> str:
    """
    The dictionary returned by update() (written to the options section by the profile
    command) holds exactly the typed value that was set.
    pre: 0 <= idx < len(ALL)
    pre: len(v) <= 5
    post: _ == "ok"
    """
    name = ALL[idx]
    p = Profile("")
    try:
        d = p.update({name: v})
    except AldyException:
        return "ok"
    if set(d) != {name}:
        return f"update returned {d!r}"
    a, b = d[name], getattr(p, name)
    return "ok" if (type(a) is type(b) and (a == b or a != a)) else f"{d!r} vs {b!r}"


def roundtrip(idx: int, v: str) -> str:
    """
    write-then-load: the typed options written by the profile command, fed back as
    options, give the same parameter value (YAML assumed to preserve typed scalars).
    pre: 0 <= idx < len(ALL)
    pre: len(v) <= 5
    post: _ == "ok"
    """
    name = ALL[idx]
    try:
        opts = Profile("").update({name: v})
    except AldyException:
        return "ok"
    first = opts[name]
    try:
        second = getattr(Profile("y", **opts), name)
    except AldyException:
        return f"{name}: written value {first!r} rejected on load"
    same = type(first) is type(second) and (first == second or first != first)
    return "ok" if same else f"{name}={v!r}: written {first!r}, loaded back as {second!r}"


class _FakeGene:
    name = "G"
    genome = "hg19"


def load_merge(idx: int, vo: str, vp: str, has_opt: bool, has_par: bool) -> str:
    """
    Profile.load: explicit parameters override the profile's options section, and both
    are typed like a direct update.
    pre: 0 <= idx < len(ALL)
    pre: len(vo) <= 3 and len(vp) <= 3
    post: _ == "ok"
    """
    name = ALL[idx]
    prof = {"neutral": {"value": 100, "hg19": ["1", 10, 20]}, "G": {}}
    if has_opt:
        prof["options"] = {name: vo}
    params = {name: vp} if has_par else {}
    eff = vp if has_par else (vo if has_opt else None)
    saved = aldy.profile.yaml.safe_load
    aldy.profile.yaml.safe_load = lambda f: prof
    try:
        try:
            p = Profile.load(_FakeGene(), os.path.join(os.path.dirname(__file__),
                                                       "empty.yml"), None, **params)
            ok, got = True, getattr(p, name)
        except AldyException:
            ok, got = False, None
    finally:
        aldy.profile.yaml.safe_load = saved
    if eff is None:
        return "ok" if ok and got == _P0[name] else f"default of {name} changed to {got!r}"
    ok2, want = _get(name, eff)
    if ok != ok2:
        return f"load({name}: options={vo!r} params={vp!r}) accepted={ok}, direct={ok2}"
    if not ok:
        return "ok"
    same = type(got) is type(want) and (got == want or got != got)
    return "ok" if same else f"load gives {name}={got!r}, expected {want!r}"


def cli_split(p: str) -> str:
    """
    --param splitting in `aldy genotype`: NAME=VALUE, dashes in NAME become underscores,
    VALUE is everything after the first '='; no '=' -> error, genotype() is not called.
    pre: len(p) <= 6
    post: _ == "ok"
    """
    import aldy.__main__ as M

    calls = []
    saved = M.genotype
    M.genotype = lambda **kw: calls.append(kw)
    args = argparse.Namespace(
        cn_neutral_region=None, cn=None, file="s.bam", profile="wgs", param=[[p]],
        simple=False, log=None, debug=None, solver="any", reference=None,
        multiple_warn_level=1, genome=None, gene="cyp2d6")
    try:
        M._genotype("cyp2d6", None, args)
    except TypeError:
        # NAME collides with one of genotype()'s own keyword arguments: outside the claim
        return "ok"
    finally:
        M.genotype = saved
    if "=" not in p:
        return "ok" if not calls else f"{p!r} without '=' still reached genotype()"
    if len(calls) != 1:
        return f"{p!r}: genotype() called {len(calls)} times"
    i = p.index("=")
    k, v = p[:i].replace("-", "_"), p[i + 1:]
    reserved = ("gene_db", "sam_path", "profile_name", "output_file", "cn_region",
                "cn_solution", "report", "is_simple", "debug", "solver", "reference",
                "multiple_warn_level", "genome")
    if k in reserved:
        return "ok"
    return "ok" if calls[0].get(k) == v else f"{p!r}: genotype() received {calls[0]!r}"
